/-
Every source that `select` returns lies inside the array it selects from: it addresses every axis, with a position below the axis length.
Hence the real code's trial array is never indexed out of bounds for an accepted item, `eval` is only ever called with in-range finite
indices and non-negative orders, and a negative finite index has been normalised before any element is requested.
-/
import PymaVerif.Proofs.IndexThm
import Mathlib.Data.List.TakeWhile

namespace Pyma
namespace Index

def NAx.idxs : NAx → List Nat
  | .one i => [i]
  | .many l => l
  | .range l => l

theorem normInt_lt {n : Nat} {i : Int} {j : Nat} (h : normInt n i = some j) : j < n := by
  by_cases hi : i < 0
  · simp only [normInt, hi, ↓reduceIte] at h
    split at h
    · cases h; omega
    · cases h
  · simp only [normInt, hi, ↓reduceIte] at h
    split at h
    · cases h; omega
    · cases h

theorem mapM_normInt_lt {n : Nat} : ∀ (l : List Int) (js : List Nat), l.mapM (normInt n) = some js → ∀ j ∈ js, j < n
  | [], js, h => by simp at h; subst h; simp
  | x :: xs, js, h => by
      simp only [List.mapM_cons, Option.bind_eq_bind, Option.bind_eq_some_iff, Option.some.injEq, Option.pure_def] at h
      obtain ⟨a, ha, as, has, rfl⟩ := h
      intro j hj
      rcases List.mem_cons.mp hj with rfl | hj
      · exact normInt_lt ha
      · exact mapM_normInt_lt xs as has j hj

theorem clip_le (n : Nat) (x : Int) : clip n x ≤ n := by
  unfold clip
  split
  · split <;> omega
  · exact min_le_right _ _

theorem stepRange_lt {a b st t : Nat} (ht : t ∈ stepRange a b st) : t < b := by
  unfold stepRange at ht
  obtain ⟨u, hu, rfl⟩ := List.mem_map.mp ht
  have hu : u < (b - a + st - 1) / st := List.mem_range.mp hu
  by_cases hst : st = 0
  · subst hst; simp at hu
  · have hpos : 0 < st := Nat.pos_of_ne_zero hst
    have h1 : (u + 1) * st ≤ b - a + st - 1 := (Nat.le_div_iff_mul_le hpos).mp hu
    have h2 : (u + 1) * st = u * st + st := by ring
    omega

theorem sliceIdx_lt {n : Nat} {a b : Option Int} {st t : Nat} (ht : t ∈ sliceIdx n a b st) : t < n := by
  unfold sliceIdx at ht
  have := stepRange_lt ht
  cases b with
  | none => simpa using this
  | some bb => exact lt_of_lt_of_le this (clip_le n bb)

theorem normAx_lt {n : Nat} {a : Ax} {x : NAx} (h : normAx n a = .ok x) : ∀ t ∈ x.idxs, t < n := by
  cases a with
  | int i =>
    simp only [normAx] at h
    split at h
    · rename_i j hj; cases h; intro t ht; simp only [NAx.idxs, List.mem_singleton] at ht; subst ht; exact normInt_lt hj
    · cases h
  | list l =>
    simp only [normAx] at h
    split at h
    · rename_i js hjs; cases h; exact mapM_normInt_lt l js hjs
    · cases h
  | slice s b st =>
    simp only [normAx] at h
    split at h
    · cases h
    · cases h; intro t ht; exact sliceIdx_lt ht

/-- the normalised entries, axis by axis, stay below the axis lengths -/
theorem normAll_lt : ∀ (dims : List Nat) (item : List Ax) (l : List NAx), normAll dims item = .ok l →
    List.Forall₂ (fun x n => ∀ t ∈ x.idxs, t < n) l dims
  | [], [], l, h => by simp [normAll] at h; cases h; exact .nil
  | n :: ns, a :: as, l, h => by
      simp only [normAll, bind, Except.bind] at h
      split at h
      · cases h
      · rename_i x hx
        split at h
        · cases h
        · rename_i xs hxs
          cases h
          exact .cons (normAx_lt hx) (normAll_lt ns as xs hxs)
  | [], _ :: _, l, h => by simp [normAll] at h
  | _ :: _, [], l, h => by simp [normAll] at h

/-! ### from the groups to the sources -/

/-- every pair of an assignment names an axis of `l` and one of the positions its entry selects -/
def ValidAs (l : List NAx) (as : List (Nat × Nat)) : Prop := ∀ p ∈ as, ∃ h : p.1 < l.length, p.2 ∈ (l[p.1]).idxs

theorem mem_zipIdx_get {l : List NAx} {a : NAx} {k : Nat} (h : (a, k) ∈ l.zipIdx) : ∃ hk : k < l.length, l[k] = a := by
  have := List.mem_zipIdx h
  simp only [Nat.zero_le, Nat.sub_zero, zero_add, true_and] at this
  obtain ⟨hk, ha⟩ := this
  exact ⟨hk, by simpa using ha.symm⟩

theorem rangeGroup_valid {l : List NAx} {p : NAx × Nat} (hp : p ∈ l.zipIdx) : ∀ alt ∈ (rangeGroup p).alts, ValidAs l alt := by
  obtain ⟨a, k⟩ := p
  obtain ⟨hk, ha⟩ := mem_zipIdx_get hp
  intro alt halt q hq
  cases a with
  | range js =>
    simp only [rangeGroup, List.mem_map] at halt
    obtain ⟨x, hx, rfl⟩ := halt
    simp only [List.mem_singleton] at hq; subst hq
    exact ⟨hk, by simp [ha, NAx.idxs, hx]⟩
  | one i =>
    simp only [rangeGroup, List.mem_singleton] at halt; subst halt
    simp only [List.mem_singleton] at hq; subst hq
    exact ⟨hk, by simp [ha, NAx.idxs]⟩
  | many js =>
    simp only [rangeGroup, List.mem_map] at halt
    obtain ⟨x, hx, rfl⟩ := halt
    simp only [List.mem_singleton] at hq; subst hq
    exact ⟨hk, by simp [ha, NAx.idxs, hx]⟩

theorem mem_manyLens {lz : List (NAx × Nat)} {js : List Nat} {k : Nat} (h : (NAx.many js, k) ∈ lz) : js.length ∈ manyLens lz := by
  unfold manyLens
  exact List.mem_filterMap.mpr ⟨(.many js, k), h, rfl⟩

theorem advGroup_valid {l : List NAx} {L : Nat} (hL : ∀ n ∈ manyLens l.zipIdx, n = 1 ∨ n = L) :
    ∀ alt ∈ (advGroup L (l.zipIdx.filter (fun p => !p.1.isRange))).alts, ValidAs l alt := by
  intro alt halt q hq
  simp only [advGroup, List.mem_map, List.mem_range] at halt
  obtain ⟨j, hj, rfl⟩ := halt
  obtain ⟨⟨a, k⟩, hak, rfl⟩ := List.mem_map.mp hq
  obtain ⟨hmem, hnr⟩ := List.mem_filter.mp hak
  obtain ⟨hk, ha⟩ := mem_zipIdx_get hmem
  refine ⟨hk, ?_⟩
  simp only [ha]
  cases a with
  | range js => simp [NAx.isRange] at hnr
  | one i => simp [pick, NAx.idxs]
  | many js =>
    simp only [pick, NAx.idxs]
    have hlen := hL js.length (mem_manyLens hmem)
    by_cases h1 : js.length = 1
    · simp only [h1, ↓reduceIte]
      match js, h1 with
      | [x], _ => simp
    · simp only [h1, ↓reduceIte]
      have : js.length = L := by tauto
      have hj' : j < js.length := by omega
      simp [List.getElem?_eq_getElem hj']

theorem product_valid {l : List NAx} : ∀ gs : List Group, (∀ g ∈ gs, ∀ alt ∈ g.alts, ValidAs l alt) → ∀ as ∈ product gs, ValidAs l as
  | [], _, as, has => by simp only [product, List.mem_singleton] at has; subst has; intro p hp; simp at hp
  | g :: r, hv, as, has => by
      simp only [product, List.mem_flatMap, List.mem_map] at has
      obtain ⟨a, ha, rest, hrest, rfl⟩ := has
      intro p hp
      rcases List.mem_append.mp hp with h | h
      · exact hv g (List.mem_cons_self ..) a ha p h
      · exact product_valid r (fun g' hg' => hv g' (List.mem_cons_of_mem _ hg')) rest hrest p h

/-- the axes an alternative of a group assigns (the same for every alternative) -/
def Group.keys (g : Group) : List Nat := match g.alts with | [] => [] | a :: _ => a.map (·.1)

theorem product_keys : ∀ gs : List Group, (∀ g ∈ gs, ∀ alt ∈ g.alts, alt.map (·.1) = g.keys) → ∀ as ∈ product gs,
    as.map (·.1) = gs.flatMap Group.keys
  | [], _, as, has => by simp only [product, List.mem_singleton] at has; subst has; simp
  | g :: r, hk, as, has => by
      simp only [product, List.mem_flatMap, List.mem_map] at has
      obtain ⟨a, ha, rest, hrest, rfl⟩ := has
      simp only [List.map_append, List.flatMap_cons, hk g (List.mem_cons_self ..) a ha,
        product_keys r (fun g' hg' => hk g' (List.mem_cons_of_mem _ hg')) rest hrest]

theorem rangeGroup_keys (p : NAx × Nat) : ∀ alt ∈ (rangeGroup p).alts, alt.map (·.1) = (rangeGroup p).keys := by
  obtain ⟨a, k⟩ := p
  intro alt halt
  cases a with
  | one i => simp only [rangeGroup, List.mem_singleton] at halt; subst halt; simp [rangeGroup, Group.keys]
  | range js =>
    simp only [rangeGroup, List.mem_map] at halt
    obtain ⟨x, hx, rfl⟩ := halt
    cases js with
    | nil => simp at hx
    | cons y ys => simp [rangeGroup, Group.keys]
  | many js =>
    simp only [rangeGroup, List.mem_map] at halt
    obtain ⟨x, hx, rfl⟩ := halt
    cases js with
    | nil => simp at hx
    | cons y ys => simp [rangeGroup, Group.keys]

theorem rangeGroup_keys_mem {p : NAx × Nat} (h : (rangeGroup p).alts ≠ []) : p.2 ∈ (rangeGroup p).keys := by
  obtain ⟨a, k⟩ := p
  cases a with
  | one i => simp [rangeGroup, Group.keys]
  | range js => cases js with
    | nil => simp [rangeGroup] at h
    | cons y ys => simp [rangeGroup, Group.keys]
  | many js => cases js with
    | nil => simp [rangeGroup] at h
    | cons y ys => simp [rangeGroup, Group.keys]

theorem advGroup_keys (L : Nat) (adv : List (NAx × Nat)) : ∀ alt ∈ (advGroup L adv).alts, alt.map (·.1) = (advGroup L adv).keys := by
  intro alt halt
  simp only [advGroup, List.mem_map, List.mem_range] at halt
  obtain ⟨j, hj, rfl⟩ := halt
  cases L with
  | zero => omega
  | succ L' =>
    simp only [advGroup, Group.keys, List.range_succ_eq_map, List.map_cons, List.map_map]
    simp [Function.comp_def]

theorem advGroup_keys_eq {L : Nat} (hL : 0 < L) (adv : List (NAx × Nat)) : (advGroup L adv).keys = adv.map (·.2) := by
  cases L with
  | zero => omega
  | succ L' =>
    simp only [advGroup, Group.keys, List.range_succ_eq_map, List.map_cons, List.map_map]
    simp [Function.comp_def]

theorem product_nonempty_alts : ∀ gs : List Group, ∀ as ∈ product gs, ∀ g ∈ gs, g.alts ≠ []
  | [], _, _, g, hg => by simp at hg
  | g0 :: r, as, has, g, hg => by
      simp only [product, List.mem_flatMap, List.mem_map] at has
      obtain ⟨a, ha, rest, hrest, rfl⟩ := has
      rcases List.mem_cons.mp hg with rfl | hg
      · exact List.ne_nil_of_mem ha
      · exact product_nonempty_alts r rest hrest g hg

/-- the value `toSource` reads for an axis that the assignment covers validly -/
theorem toSource_spec {l : List NAx} {as : List (Nat × Nat)} (hv : ValidAs l as) (hc : ∀ k < l.length, k ∈ as.map (·.1)) :
    List.Forall₂ (fun v x => v ∈ x.idxs) (toSource l.length as) l := by
  unfold toSource
  rw [List.forall₂_iff_get]
  refine ⟨by simp, ?_⟩
  intro k hk1 hk2
  simp only [List.get_eq_getElem, List.getElem_map, List.getElem_range]
  obtain ⟨p, hp, hpk⟩ := List.mem_map.mp (hc k hk2)
  have hsome : (as.find? (fun q => q.1 == k)).isSome := by
    rw [List.find?_isSome]; exact ⟨p, hp, by simp [hpk]⟩
  obtain ⟨q, hq⟩ := Option.isSome_iff_exists.mp hsome
  have hqk : q.1 = k := by have := List.find?_some hq; simpa using this
  obtain ⟨hlt, hmem⟩ := hv q (List.mem_of_find?_eq_some hq)
  simp only [hq, Option.map_some, Option.getD_some]
  simpa [hqk] using hmem

/-! ### the combination rule covers every axis -/

theorem mem_zipIdx_self {l : List NAx} {k : Nat} (hk : k < l.length) : (l[k], k) ∈ l.zipIdx := by
  rw [List.mem_zipIdx_iff_getElem?]
  simp [hk]

theorem suffix_split {α : Type} (p : α → Bool) (rest : List α) :
    rest.take (rest.length - ((rest.reverse.takeWhile p).reverse).length) ++ (rest.reverse.takeWhile p).reverse = rest := by
  have hsuf : (rest.reverse.takeWhile p).reverse <:+ rest := by
    have := List.takeWhile_prefix p (l := rest.reverse)
    have := List.reverse_suffix.mpr this
    simpa using this
  obtain ⟨t, ht⟩ := hsuf
  have hlen : rest.length - ((rest.reverse.takeWhile p).reverse).length = t.length := by
    have := congrArg List.length ht; simp only [List.length_append] at this; omega
  rw [hlen]
  have htake : List.take t.length rest = t := by
    have := congrArg (List.take t.length) ht
    simpa using this.symm
  rw [htake]; exact ht

/-- what `groups` returns: every group is a range group of an entry or the advanced group; every entry is covered -/
theorem groups_form {l : List NAx} {gs : List Group} (h : groups l.zipIdx = .ok gs) :
    ∃ L, (∀ n ∈ manyLens l.zipIdx, n = 1 ∨ n = L) ∧
      (∀ g ∈ gs, (∃ p ∈ l.zipIdx, g = rangeGroup p) ∨ g = advGroup L (l.zipIdx.filter (fun p => !p.1.isRange))) ∧
      (∀ p ∈ l.zipIdx, rangeGroup p ∈ gs ∨ (p.1.isRange = false ∧ advGroup L (l.zipIdx.filter (fun p => !p.1.isRange)) ∈ gs)) := by
  unfold groups at h
  by_cases hbasic : (l.zipIdx.all fun p => !p.1.isMany) = true
  · simp only [hbasic, ↓reduceIte, Except.ok.injEq] at h
    subst h
    have hnone : manyLens l.zipIdx = [] := by
      unfold manyLens
      rw [List.filterMap_eq_nil_iff]
      intro p hp
      have := List.all_eq_true.mp hbasic p hp
      obtain ⟨a, k⟩ := p
      cases a <;> simp_all [NAx.isMany]
    refine ⟨1, by simp [hnone], ?_, ?_⟩
    · intro g hg; obtain ⟨p, hp, rfl⟩ := List.mem_map.mp hg; exact Or.inl ⟨p, hp, rfl⟩
    · intro p hp; exact Or.inl (List.mem_map_of_mem hp)
  · simp only [hbasic, Bool.false_eq_true, ↓reduceIte] at h
    set lz := l.zipIdx with hlz
    set L := bcLen (manyLens lz) with hLdef
    by_cases hbc : ((manyLens lz).all fun n => decide (n = 1 ∨ n = L)) = true
    · simp only [hbc, ↓reduceIte] at h
      have hL : ∀ n ∈ manyLens lz, n = 1 ∨ n = L := by
        intro n hn; simpa using List.all_eq_true.mp hbc n hn
      set pre := lz.takeWhile (·.1.isRange) with hpre
      set rest := lz.dropWhile (·.1.isRange) with hrest
      set post := (rest.reverse.takeWhile (·.1.isRange)).reverse with hpost
      set mid := rest.take (rest.length - post.length) with hmid
      have hsplit1 : pre ++ rest = lz := List.takeWhile_append_dropWhile
      have hsplit2 : mid ++ post = rest := suffix_split _ rest
      have hpre_range : ∀ p ∈ pre, p.1.isRange = true := by
        intro p hp
        exact List.mem_takeWhile_imp (p := fun q : NAx × Nat => q.1.isRange) (l := lz) hp
      have hpost_range : ∀ p ∈ post, p.1.isRange = true := by
        intro p hp
        have : p ∈ rest.reverse.takeWhile (·.1.isRange) := by simpa [hpost] using hp
        exact List.mem_takeWhile_imp (p := fun q : NAx × Nat => q.1.isRange) (l := rest.reverse) this
      have hmem : ∀ p, p ∈ lz ↔ p ∈ pre ∨ p ∈ mid ∨ p ∈ post := by
        intro p; rw [← hsplit1, ← hsplit2]; simp [List.mem_append]
      by_cases hcont : (mid.all fun p => !p.1.isRange) = true
      · simp only [hcont, ↓reduceIte, Except.ok.injEq] at h
        subst h
        refine ⟨L, hL, ?_, ?_⟩
        · intro g hg
          simp only [List.mem_append, List.mem_map, List.mem_singleton] at hg
          rcases hg with (⟨p, hp, rfl⟩ | rfl) | ⟨p, hp, rfl⟩
          · exact Or.inl ⟨p, (hmem p).2 (Or.inl hp), rfl⟩
          · exact Or.inr rfl
          · exact Or.inl ⟨p, (hmem p).2 (Or.inr (Or.inr hp)), rfl⟩
        · intro p hp
          rcases (hmem p).1 hp with h1 | h1 | h1
          · exact Or.inl (by simp only [List.mem_append, List.mem_map, List.mem_singleton]; exact Or.inl (Or.inl ⟨p, h1, rfl⟩))
          · refine Or.inr ⟨?_, by simp⟩
            have := List.all_eq_true.mp hcont p h1
            simpa using this
          · exact Or.inl (by simp only [List.mem_append, List.mem_map, List.mem_singleton]; exact Or.inr ⟨p, h1, rfl⟩)
      · simp only [hcont, Bool.false_eq_true, ↓reduceIte, Except.ok.injEq] at h
        subst h
        refine ⟨L, hL, ?_, ?_⟩
        · intro g hg
          rcases List.mem_cons.mp hg with rfl | hg
          · exact Or.inr rfl
          · obtain ⟨p, hp, rfl⟩ := List.mem_map.mp hg
            exact Or.inl ⟨p, (List.mem_filter.mp hp).1, rfl⟩
        · intro p hp
          by_cases hr : p.1.isRange = true
          · exact Or.inl (List.mem_cons_of_mem _ (List.mem_map_of_mem (List.mem_filter.mpr ⟨hp, hr⟩)))
          · exact Or.inr ⟨by simpa using hr, List.mem_cons_self ..⟩
    · simp only [hbc, Bool.false_eq_true, ↓reduceIte] at h
      cases h

theorem forall₂_trans_lt : ∀ {src : List Nat} {l : List NAx} {dims : List Nat}, List.Forall₂ (fun v x => v ∈ x.idxs) src l →
    List.Forall₂ (fun x n => ∀ t ∈ x.idxs, t < n) l dims → List.Forall₂ (· < ·) src dims
  | _, _, _, .nil, .nil => .nil
  | _, _, _, .cons hv h1, .cons hx h2 => .cons (hx _ hv) (forall₂_trans_lt h1 h2)

/-- **in bounds**: every source that `select` returns addresses each axis of the array with a position below the axis length -/
theorem select_in_bounds {dims : List Nat} {item : List Ax} {r : Result} (h : select dims item = .ok r) :
    ∀ s ∈ r.sources, List.Forall₂ (· < ·) s dims := by
  unfold select at h
  simp only [bind, Except.bind] at h
  split at h
  · cases h
  · rename_i l hl
    have hlt := normAll_lt dims item l hl
    unfold assemble at h
    simp only [bind, Except.bind] at h
    split at h
    · cases h
    · rename_i gs hgs
      simp only [pure, Except.pure, Except.ok.injEq] at h
      subst h
      obtain ⟨L, hL, hform, hcover⟩ := groups_form hgs
      intro s hs
      obtain ⟨as, has, rfl⟩ := List.mem_map.mp hs
      have hvalid : ∀ g ∈ gs, ∀ alt ∈ g.alts, ValidAs l alt := by
        intro g hg
        rcases hform g hg with ⟨p, hp, rfl⟩ | rfl
        · exact rangeGroup_valid hp
        · exact advGroup_valid hL
      have hkeys : ∀ g ∈ gs, ∀ alt ∈ g.alts, alt.map (·.1) = g.keys := by
        intro g hg
        rcases hform g hg with ⟨p, hp, rfl⟩ | rfl
        · exact rangeGroup_keys p
        · exact advGroup_keys _ _
      have hne := product_nonempty_alts gs as has
      have hcov : ∀ k < l.length, k ∈ as.map (·.1) := by
        intro k hk
        rw [product_keys gs hkeys as has]
        rcases hcover _ (mem_zipIdx_self hk) with hg | ⟨hnr, hg⟩
        · exact List.mem_flatMap.mpr ⟨_, hg, rangeGroup_keys_mem (hne _ hg)⟩
        · refine List.mem_flatMap.mpr ⟨_, hg, ?_⟩
          have hLpos : 0 < L := by
            have := hne _ hg
            simp only [advGroup, ne_eq, List.map_eq_nil_iff, List.range_eq_nil] at this
            omega
          rw [advGroup_keys_eq hLpos]
          exact List.mem_map.mpr ⟨(l[k], k), List.mem_filter.mpr ⟨mem_zipIdx_self hk, by simpa using hnr⟩, rfl⟩
      have hsrc := toSource_spec (product_valid gs hvalid as has) hcov
      exact forall₂_trans_lt hsrc hlt

end Index
end Pyma
