/-
Requests for several elements (`series[item]` with lists and slices): every returned value is the denotation of its element, the state stays
consistent, and — composed with the model of the item resolution — each element the item selects is evaluated at most once even when the
elements of one request depend on each other (an element evaluated re-entrantly by an earlier one is found cached when its turn comes).
-/
import PymaVerif.Proofs.MachineThm
import PymaVerif.Proofs.MachineOnce
import PymaVerif.Proofs.IndexThm

namespace Pyma
namespace Machine

variable {V : Type}

theorem getMany_sound (S : Sys V) (den : SId → Idx → V) (hc : Consistent S den) (f : Nat) (s : SId) :
    ∀ (idxs : List Idx) (w : World V), Inv den w →
      Inv den (getMany S f s idxs w).2 ∧ ∀ vs, (getMany S f s idxs w).1 = .ok vs → vs = idxs.map (den s)
  | [], w, hw => by simp [getMany, hw]
  | i :: rest, w, hw => by
    have hg := (sound S den hc f).2 s i w hw
    rcases hgi : getItem S f s i w with ⟨r, w'⟩
    rw [hgi] at hg
    cases r with
    | error e =>
      have : getMany S f s (i :: rest) w = (.error e, w') := by simp only [getMany, hgi]
      rw [this]; exact ⟨hg.1, by simp⟩
    | ok v =>
      have hv : v = den s i := hg.2 v rfl
      have ih := getMany_sound S den hc f s rest w' hg.1
      rcases hgr : getMany S f s rest w' with ⟨r', w''⟩
      rw [hgr] at ih
      cases r' with
      | error e =>
        have : getMany S f s (i :: rest) w = (.error e, w'') := by simp only [getMany, hgi, hgr]
        rw [this]; exact ⟨ih.1, by simp⟩
      | ok vs =>
        have : getMany S f s (i :: rest) w = (.ok (v :: vs), w'') := by simp only [getMany, hgi, hgr]
        rw [this]
        refine ⟨ih.1, ?_⟩
        intro vs' h
        simp only [Except.ok.injEq] at h
        rw [← h, ih.2 vs rfl, hv]; rfl

theorem manyScript_noPop (s : SId) : ∀ (idxs : List Idx) (v : V), NoPop (manyScript s idxs v)
  | [], v => .pure v
  | i :: rest, _ => .get s i _ fun v => manyScript_noPop s rest v

/-- a request for several elements, from empty caches, evaluates no element twice — whatever the elements' definitions read -/
theorem request_log_nodup (S : Sys V) (hdefs : ∀ s i, NoPop (S.defs s i)) (f : Nat) (s : SId) (idxs : List Idx) (v0 v : V)
    (h : (run S f (manyScript s idxs v0) ⟨[], 0, []⟩).1 = .ok v) : (run S f (manyScript s idxs v0) ⟨[], 0, []⟩).2.log.Nodup :=
  log_nodup S hdefs f _ (manyScript_noPop s idxs v0) v h

end Machine
end Pyma
