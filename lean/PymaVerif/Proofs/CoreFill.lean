/-
The lower-triangle fill of `W`: if the diagonal and upper blocks of `W` are those of `-½ Q P` and the
lower blocks are filled by adjoints, then `W` is Hermitian and `2 W = -(Q P)` everywhere.
(`Q = W - V`, `P = W + V`, `V` anti-Hermitian.)  No induction on the order: one contraction.
-/
import PymaVerif.Proofs.Filtered

namespace Pyma
namespace CoreFill

variable {S : Type*} [Ring S] [StarRing S]

structure Hyp (S : Type*) [Ring S] [StarRing S] where
  Φ : Filtration S
  two_cancel : ∀ x y : S, 2 * x = 2 * y → x = y
  two_mem : ∀ k (x : S), 2 * x ∈ Φ.F k → x ∈ Φ.F k
  star_mem : ∀ k (x : S), x ∈ Φ.F k → star x ∈ Φ.F k
  Dg : S →+ S
  Up : S →+ S
  Lo : S →+ S
  split : ∀ x, Dg x + Up x + Lo x = x
  Dg_mem : ∀ k (x : S), x ∈ Φ.F k → Dg x ∈ Φ.F k
  star_Dg : ∀ x, star (Dg x) = Dg (star x)
  star_Up : ∀ x, star (Up x) = Lo (star x)
  star_Lo : ∀ x, star (Lo x) = Up (star x)
  W : S
  V : S
  Wmem : W ∈ Φ.F 1
  Vmem : V ∈ Φ.F 1
  Vstar : star V = -V
  eqDg : 2 * Dg W = -Dg ((W - V) * (W + V))
  eqUp : 2 * Up W = -Up ((W - V) * (W + V))
  fill : Lo W = star (Up W)

variable (h : Hyp S)

local notation "P" => (Hyp.W h + Hyp.V h)
local notation "Q" => (Hyp.W h - Hyp.V h)
local notation "E" => (Hyp.W h - star (Hyp.W h))

theorem star_two_mul (x : S) : star (2 * x) = 2 * star x := by
  rw [two_mul, two_mul, star_add]

theorem map_two (f : S →+ S) (x : S) : f (2 * x) = 2 * f x := by
  rw [two_mul, two_mul, map_add]

theorem UpE : h.Up E = 0 := by
  rw [map_sub, ← h.star_Lo, h.fill, star_star, sub_self]

theorem LoE : h.Lo E = 0 := by
  rw [map_sub, ← h.star_Up, h.fill, sub_self]

theorem E_eq_Dg : E = h.Dg E := by
  have := h.split E
  rw [UpE, LoE, add_zero, add_zero] at this
  exact this.symm

theorem starP : star P = Q - E := by
  rw [star_add, h.Vstar]; abel

theorem starQ : star Q = P - E := by
  rw [star_sub, h.Vstar]; abel

theorem twoE : 2 * E = h.Dg (-(Q * E) - E * P + E * E) := by
  have e1 : 2 * E = 2 * h.Dg h.W - 2 * h.Dg (star h.W) := by
    conv_lhs => rw [E_eq_Dg h]
    rw [map_sub, mul_sub]
  have e2 : 2 * h.Dg (star h.W) = -h.Dg (star (Q * P)) := by
    rw [← h.star_Dg, ← star_two_mul, h.eqDg, star_neg, h.star_Dg]
  have e3 : star (Q * P) = Q * P - Q * E - E * P + E * E := by
    rw [star_mul, starP, starQ]; noncomm_ring
  rw [e1, h.eqDg, e2, e3]
  simp only [map_add, map_sub, map_neg]
  abel

theorem W_hermitian : star h.W = h.W := by
  have hE : E = 0 := by
    apply h.Φ.eq_zero_of_contract
    intro k hk
    apply h.two_mem
    rw [twoE]
    apply h.Dg_mem
    have hQ : Q ∈ h.Φ.F 1 := AddSubgroup.sub_mem _ h.Wmem h.Vmem
    have hP : P ∈ h.Φ.F 1 := AddSubgroup.add_mem _ h.Wmem h.Vmem
    have hE1 : E ∈ h.Φ.F 1 := AddSubgroup.sub_mem _ h.Wmem (h.star_mem _ _ h.Wmem)
    exact AddSubgroup.add_mem _
      (AddSubgroup.sub_mem _ (AddSubgroup.neg_mem _ (h.Φ.mul_left_mem hQ hk)) (h.Φ.mul_right_mem hk hP))
      (h.Φ.mul_left_mem hE1 hk)
  exact (sub_eq_zero.mp hE).symm

theorem QP_hermitian : star (Q * P) = Q * P := by
  have hw := W_hermitian h
  rw [star_mul, star_add, star_sub, hw, h.Vstar]; noncomm_ring

/-- the global `W` equation -/
theorem eqW : 2 * h.W = -(Q * P) := by
  have hLo : 2 * h.Lo h.W = -h.Lo (Q * P) := by
    rw [h.fill, ← star_two_mul, h.eqUp, star_neg, h.star_Up, QP_hermitian]
  calc 2 * h.W = 2 * (h.Dg h.W + h.Up h.W + h.Lo h.W) := by rw [h.split]
    _ = 2 * h.Dg h.W + 2 * h.Up h.W + 2 * h.Lo h.W := by rw [mul_add, mul_add]
    _ = -(h.Dg (Q * P) + h.Up (Q * P) + h.Lo (Q * P)) := by rw [h.eqDg, h.eqUp, hLo]; abel
    _ = -(Q * P) := by rw [h.split]

end CoreFill
end Pyma
#print axioms Pyma.CoreFill.eqW
