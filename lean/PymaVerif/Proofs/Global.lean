/-
From blocks to whole matrices: the global coefficient `G x n` of a series and the fact that a
declared product is the Cauchy product of the global coefficients of its factors.
-/
import PymaVerif.Proofs.StepSem
import PymaVerif.Proofs.Splits
import Mathlib.RingTheory.MvPowerSeries.Basic

namespace Pyma
namespace Dsl

variable {K : Type} [Field K] [StarRing K] [DecidableEq K] [Thresholds K]
attribute [local instance] Scalar.ofField

variable {B : Blocks} {p : Prog} {env : Env K}

/-- a whole matrix vanishing outside block `(i,j)` -/
def SuppM (B : Blocks) (i j : Nat) (M : MatK K B) : Prop :=
  ∀ a b : Fin B.d, ¬ (B.blk a.val = i ∧ B.blk b.val = j) → M a b = 0

theorem sem_suppM {idx : Idx} {v : SVal K} (h : Supp B idx v) : SuppM B idx.i idx.j (sem B idx v) := by
  intro a b hn
  cases v with
  | zero => rfl
  | one =>
    have hij : idx.i = idx.j := h
    simp only [sem, blockId, Matrix.diagonal_apply]
    split
    · rename_i hab
      subst hab
      split
      · rename_i hb; exact absurd ⟨hb, hij ▸ hb⟩ hn
      · rfl
    · rfl
  | val m => exact h.2 a.val b.val a.isLt b.isLt hn

theorem mat_suppM (he : EnvOK B env) (x : String) (idx : Idx) :
    SuppM B idx.i idx.j (mat B p env x idx) := by
  unfold mat
  by_cases h : ∃ v, Den p env x idx v
  · exact sem_suppM (Holds.supp he (den_spec h))
  · simp only [den, h, ↓reduceDIte]
    intro a b _; rfl

/-- global coefficient of series `x` at order `n` -/
noncomputable def G (B : Blocks) (p : Prog) (env : Env K) (x : String) (n : List Nat) : MatK K B :=
  fun a b => mat B p env x ⟨B.blk a.val, B.blk b.val, n⟩ a b

theorem mat_eq_G (he : EnvOK B env) (x : String) (i j : Nat) (n : List Nat) (a b : Fin B.d) :
    mat B p env x ⟨i, j, n⟩ a b = if B.blk a.val = i ∧ B.blk b.val = j then G B p env x n a b else 0 := by
  split
  · rename_i h
    obtain ⟨h1, h2⟩ := h
    subst h1; subst h2; rfl
  · rename_i h
    exact mat_suppM he x ⟨i, j, n⟩ a b h

theorem list_sum_apply {ι : Type*} (l : List ι) (f : ι → MatK K B) (a b : Fin B.d) :
    (l.map f).sum a b = (l.map fun t => f t a b).sum := by
  induction l with
  | nil => rfl
  | cons t ts ih => simp [List.map_cons, List.sum_cons, Matrix.add_apply, ih]

theorem sum_flatMap' {α M : Type*} [AddMonoid M] (l : List α) (f : α → List M) :
    (l.flatMap f).sum = (l.map fun a => (f a).sum).sum := by
  induction l with
  | nil => rfl
  | cons a as ih => simp [List.flatMap_cons, List.sum_append, ih]

theorem list_sum_comm {α β M : Type*} [AddCommMonoid M] (l : List α) (r : List β) (f : α → β → M) :
    (l.map fun a => (r.map fun b => f a b).sum).sum = (r.map fun b => (l.map fun a => f a b).sum).sum := by
  induction l with
  | nil => simp
  | cons a as ih =>
    simp only [List.map_cons, List.sum_cons, ih]
    rw [← List.sum_map_add]

/-- entries of a product element: the middle block sum collapses by support -/
theorem pairSum_entry (he : EnvOK B env) (hN : ∀ a : Fin B.d, B.blk a.val < env.nblocks)
    (x y : String) (n : List Nat) (a b : Fin B.d) :
    pairSum B p env x y (B.blk a.val) (B.blk b.val) (pairsOf env.nblocks n) a b
      = ((splits n).map fun q => (G B p env x q.1 * G B p env y q.2) a b).sum := by
  unfold pairSum pairsOf
  rw [list_sum_apply, List.map_flatMap, sum_flatMap']
  simp only [List.map_map, Function.comp_def]
  have hcollapse : ∀ q : List Nat × List Nat,
      ((List.range env.nblocks).map fun m =>
        (mat B p env x ⟨B.blk a.val, m, q.1⟩ * mat B p env y ⟨m, B.blk b.val, q.2⟩) a b).sum
        = (G B p env x q.1 * G B p env y q.2) a b := by
    intro q
    simp only [Matrix.mul_apply]
    rw [← List.sum_toFinset _ (List.nodup_range), Finset.sum_comm]
    apply Finset.sum_congr rfl
    intro c _
    rw [Finset.sum_eq_single (B.blk c.val)]
    · rw [mat_eq_G he, mat_eq_G he]; simp
    · intro m _ hm
      rw [mat_eq_G he x]
      split
      · rename_i h; exact absurd h.2.symm hm
      · rw [zero_mul]
    · intro h
      exact absurd (by simpa using hN c) h
  rw [list_sum_comm]
  congr 1
  apply List.map_congr_left
  intro q _
  exact hcollapse q


/-- the series of global coefficients, as a formal power series in `k` parameters -/
noncomputable def Ser (B : Blocks) (p : Prog) (env : Env K) (k : Nat) (x : String) :
    MvPowerSeries (Fin k) (MatK K B) :=
  fun m => G B p env x (toList m)

theorem coeff_Ser (k : Nat) (x : String) (m : Fin k →₀ ℕ) :
    MvPowerSeries.coeff m (Ser B p env k x) = G B p env x (toList m) := rfl

theorem matrix_finset_sum_apply {ι : Type*} (s : Finset ι) (f : ι → MatK K B) (a b : Fin B.d) :
    (∑ i ∈ s, f i) a b = ∑ i ∈ s, f i a b := by
  classical
  induction s using Finset.induction_on with
  | empty => rfl
  | insert i s hi ih => rw [Finset.sum_insert hi, Finset.sum_insert hi, Matrix.add_apply, ih]

/-- a declared product denotes the product of power series -/
theorem Ser_product (he : EnvOK B env) (S : EnvSem B env)
    (hN : ∀ a : Fin B.d, B.blk a.val < env.nblocks) (k : Nat) {x a b : String}
    (hk : kindOf p env x = .product a b) (hder : ∀ idx, ∃ v, Den p env x idx v) :
    Ser B p env k x = Ser B p env k a * Ser B p env k b := by
  ext m r c
  rw [coeff_Ser, MvPowerSeries.coeff_mul]
  rw [matrix_finset_sum_apply]
  show mat B p env x ⟨B.blk r.val, B.blk c.val, toList m⟩ r c = _
  obtain ⟨v, hv⟩ := hder ⟨B.blk r.val, B.blk c.val, toList m⟩
  rw [Den.sat he S hv]
  simp only [elemSem, hk]
  rw [pairSum_entry he hN, sum_splits m (fun q1 q2 => (G B p env a q1 * G B p env b q2) r c)]
  rfl

end Dsl
end Pyma
#print axioms Pyma.Dsl.Ser_product
