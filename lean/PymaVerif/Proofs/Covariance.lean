/-
C15, first instance of the transport theorem: shifting the Hamiltonian by a multiple of the identity
does not change the transformation.  Stated for two problems of the same shape (`withTerms`).
-/
import PymaVerif.Proofs.MainUnique

namespace Pyma
namespace BlockDiag
open Dsl Generated MvPowerSeries
namespace Problem

variable {K : Type} [Field K] [StarRing K] [DecidableEq K] [Thresholds K]
attribute [local instance] Scalar.ofField

/-- the same problem with other Hamiltonian terms -/
abbrev withTerms (p : Problem K) (ts : List (List Nat × Mat K)) : Problem K := { p with terms := ts }

variable (p : Problem K) (ts : List (List Nat × Mat K))

/-- the scalar matrix `c·1` as a constant series -/
noncomputable def scalarS (c : K) : Sr (Fin p.nparams) K p.d := C (c • (1 : Mt K p.d))

theorem scalarS_central (c : K) (y : Sr (Fin p.nparams) K p.d) : p.scalarS c * y = y * p.scalarS c := by
  ext m a b
  simp only [scalarS]
  rw [coeff_C_mul, coeff_mul_C]
  simp [Matrix.smul_mul, Matrix.mul_smul, mul_comm]

/-- **C15 (shift)**: if two accepted problems of the same shape keep the same entries and their
Hamiltonians differ by `c·1`, they have the same `U` (and `H̃` differs by `c·1`) -/
theorem C15_shift [LawfulThresholds K] (hp : p.Accepted) (hq : (p.withTerms ts).Accepted) (h2 : (2 : K) ≠ 0)
    (c : K) (hc : star c = c)
    (hkept : ∀ a b : Fin p.d, (p.withTerms ts).keptE a.val b.val = p.keptE a.val b.val)
    (hH : p.sr "H" = (p.withTerms ts).sr "H" + p.scalarS c) :
    p.sr "U'" = (p.withTerms ts).sr "U'" := by
  let q := p.withTerms ts
  have hsel : ∀ x : Sr (Fin p.nparams) K p.d, p.SelS x = q.SelS x := by
    intro x
    ext m a b
    rw [coeff_SelS]
    show _ = (if q.keptE a.val b.val then coeff m x a b else 0)
    rw [hkept]
  have hT : TheoremU.Hom (p.ctx hp.ready hp.acc h2) (q.ctx hq.ready hq.acc h2)
      (RingHom.id _) (p.scalarS c) := by
    refine ⟨fun _ => rfl, fun _ _ hx => hx, fun x => hsel x, ?_, p.scalarS_central c, ?_⟩
    · show p.H0s + (p.sr "H'_diag" + p.sr "H'_offdiag") = q.H0s + (q.sr "H'_diag" + q.sr "H'_offdiag") + p.scalarS c
      have e1 := p.sr_H hp.ready hp.acc
      have e2 := q.sr_H hq.ready hq.acc
      rw [← add_assoc, ← e1, ← add_assoc, ← e2]
      exact hH
    · show q.SelS (p.scalarS c) = p.scalarS c
      ext m a b
      rw [coeff_SelS]
      show (if q.keptE a.val b.val then coeff m (p.scalarS c) a b else 0) = _
      simp only [scalarS, coeff_C]
      by_cases hm : m = 0
      · simp only [hm, ↓reduceIte, Matrix.smul_apply, Matrix.one_apply, smul_eq_mul]
        by_cases hab : a = b
        · subst hab; rw [hq.diag_kept]; simp
        · simp [hab]
      · simp [hm]
  have := TheoremU.transport (q.ctx hq.ready hq.acc h2) hT (p.sol_main hp.ready hp.sym hp.acc h2)
    (q.sol_main hq.ready hq.sym hq.acc h2)
  exact this

end Problem
end BlockDiag
end Pyma
#print axioms Pyma.BlockDiag.Problem.C15_shift
