/-
C13, permuting the perturbation parameters: a second instance of the transport theorem.  The
homomorphism relabels multi-orders by a degree-preserving additive equivalence (`Finsupp.domCongr` of a
permutation of the parameters is one, `degree_domCongr`).
-/
import PymaVerif.Proofs.Covariance2

namespace Pyma
open MvPowerSeries

section permute
variable {K : Type} [Field K] [StarRing K] {d : Nat} {σ : Type} [DecidableEq σ]

/-- relabel the exponents by an additive equivalence: `coeff m (ps E f) = coeff (E m) f` -/
noncomputable def ps (E : (σ →₀ ℕ) ≃+ (σ →₀ ℕ)) (f : Sr σ K d) : Sr σ K d := fun m => coeff (E m) f

theorem coeff_ps (E : (σ →₀ ℕ) ≃+ (σ →₀ ℕ)) (f : Sr σ K d) (m : σ →₀ ℕ) : coeff m (ps E f) = coeff (E m) f := rfl

noncomputable def permS (E : (σ →₀ ℕ) ≃+ (σ →₀ ℕ)) : Sr σ K d →+* Sr σ K d where
  toFun := ps E
  map_zero' := by ext m : 1; rw [coeff_ps]; simp
  map_one' := by
    ext m : 1
    rw [coeff_ps, coeff_one, coeff_one]
    by_cases hm : m = 0
    · rw [if_pos hm, if_pos (by rw [hm, map_zero])]
    · rw [if_neg hm, if_neg (fun h => hm (E.map_eq_zero_iff.mp h))]
  map_add' f g := by ext m : 1; rw [coeff_ps, map_add, map_add, coeff_ps, coeff_ps]
  map_mul' f g := by
    ext m : 1
    rw [coeff_ps, coeff_mul, coeff_mul]
    apply Finset.sum_nbij' (fun q => (E.symm q.1, E.symm q.2)) (fun q => (E q.1, E q.2))
    · intro q hq
      rw [Finset.mem_antidiagonal] at hq ⊢
      show E.symm q.1 + E.symm q.2 = m
      rw [← map_add, hq, AddEquiv.symm_apply_apply]
    · intro q hq
      rw [Finset.mem_antidiagonal] at hq ⊢
      show E q.1 + E q.2 = E m
      rw [← map_add, hq]
    · intro q _; ext <;> simp only [AddEquiv.apply_symm_apply]
    · intro q _; ext <;> simp only [AddEquiv.symm_apply_apply]
    · intro q _
      show coeff q.1 f * coeff q.2 g = coeff (E.symm q.1) (ps E f) * coeff (E.symm q.2) (ps E g)
      rw [coeff_ps, coeff_ps, AddEquiv.apply_symm_apply, AddEquiv.apply_symm_apply]

theorem coeff_permS (E : (σ →₀ ℕ) ≃+ (σ →₀ ℕ)) (f : Sr σ K d) (m : σ →₀ ℕ) :
    coeff m (permS E f) = coeff (E m) f := rfl

theorem degree_domCongr (e : σ ≃ σ) (m : σ →₀ ℕ) : (Finsupp.domCongr e m).degree = m.degree := by
  classical
  induction m using Finsupp.induction_linear with
  | zero => rw [map_zero]
  | add f g hf hg => rw [map_add, map_add, map_add, hf, hg]
  | single a b =>
    have : Finsupp.domCongr e (Finsupp.single a b) = Finsupp.single (e a) b := by
      ext x
      simp [Finsupp.domCongr_apply, Finsupp.single_apply, Equiv.symm_apply_eq, eq_comm]
    rw [this]; simp
end permute

namespace BlockDiag
open Dsl Generated
namespace Problem

variable {K : Type} [Field K] [StarRing K] [DecidableEq K] [Thresholds K]
attribute [local instance] Scalar.ofField
variable (p : Problem K) (ts : List (List Nat × Mat K))

/-- **C13 (permute)**: if two accepted problems of the same shape keep the same entries and the
Hamiltonian of the second is the first with its orders relabelled by a degree-preserving additive
equivalence of multi-orders (a permutation of the perturbation parameters), then so is its transformation -/
theorem C13_permute [LawfulThresholds K] (hp : p.Accepted) (hq : (p.withTerms ts).Accepted) (h2 : (2 : K) ≠ 0)
    (E : (Fin p.nparams →₀ ℕ) ≃+ (Fin p.nparams →₀ ℕ)) (hdeg : ∀ m, (E m).degree = m.degree)
    (hkept : ∀ a b : Fin p.d, (p.withTerms ts).keptE a.val b.val = p.keptE a.val b.val)
    (hH : (p.withTerms ts).sr "H" = permS E (p.sr "H")) :
    (p.withTerms ts).sr "U'" = permS E (p.sr "U'") := by
  let q := p.withTerms ts
  have hen : ∀ a : Fin p.d, q.energy a.val = p.energy a.val := by
    intro a
    have e1 := congrFun (congrFun (hq.acc.H0_spec) a) a
    have e2 := congrFun (congrFun (hp.acc.H0_spec) a) a
    have e3 : q.g "H" (toList (0 : Fin p.nparams →₀ ℕ)) = p.g "H" (toList (0 : Fin p.nparams →₀ ℕ)) := by
      have := congrArg (coeff (0 : Fin p.nparams →₀ ℕ)) hH
      have e' : q.g "H" (toList (0 : Fin p.nparams →₀ ℕ))
          = p.g "H" (toList (E (0 : Fin p.nparams →₀ ℕ))) := this
      rw [map_zero] at e'
      exact e'
    rw [e3] at e1
    rw [e2] at e1
    simpa [H0mat] using e1.symm
  have hH0 : q.H0s = p.H0s := by
    unfold H0s H0mat
    congr 2
    funext a
    exact hen a
  have hsel : ∀ x : Sr (Fin p.nparams) K p.d, p.SelS x = q.SelS x := by
    intro x
    ext m a b
    rw [coeff_SelS]
    show _ = (if q.keptE a.val b.val then coeff m x a b else 0)
    rw [hkept]
  have hT : TheoremU.Hom (p.ctx hp.ready hp.acc h2) (q.ctx hq.ready hq.acc h2) (permS E) 0 := by
    refine ⟨?_, ?_, ?_, ?_, fun y => by simp, by simp⟩
    · intro x
      ext m a b
      rw [coeff_permS, p.coeff_star_apply, p.coeff_star_apply, coeff_permS]
    · intro k x hx m hm
      rw [coeff_permS]
      exact hx (E m) (by rw [hdeg]; exact hm)
    · intro x
      show permS E (p.SelS x) = q.SelS (permS E x)
      rw [← hsel]
      ext m a b
      rw [coeff_permS, coeff_SelS, coeff_SelS, coeff_permS]
    · show permS E (p.H0s + (p.sr "H'_diag" + p.sr "H'_offdiag"))
        = q.H0s + (q.sr "H'_diag" + q.sr "H'_offdiag") + 0
      have e1 := p.sr_H hp.ready hp.acc
      have e2 := q.sr_H hq.ready hq.acc
      rw [add_zero, ← add_assoc, ← add_assoc, ← e1, ← e2]
      exact hH.symm
  exact (TheoremU.transport (q.ctx hq.ready hq.acc h2) hT (p.sol_main hp.ready hp.sym hp.acc h2)
    (q.sol_main hq.ready hq.sym hq.acc h2)).symm

end Problem
end BlockDiag
end Pyma
#print axioms Pyma.BlockDiag.Problem.C13_permute
