/-
C19 / C12 "exactly once": in a successful execution that never pops, no element is evaluated twice —
the evaluation log has no duplicates, whatever the request history.  Core Lean only.
-/
import PymaVerif.Proofs.MachineThm

namespace Pyma
namespace Machine

variable {V : Type}

/-- scripts that never delete an element -/
inductive NoPop : Script V → Prop where
  | pure (v) : NoPop (.pure v)
  | fail (e) : NoPop (.fail e)
  | get (s i k) : (∀ v, NoPop (k v)) → NoPop (.get s i k)
  | contains (s i k) : (∀ b, NoPop (k b)) → NoPop (.contains s i k)
  | user (cb arg k) : (∀ v, NoPop (k v)) → NoPop (.user cb arg k)

/-- every logged evaluation still has its cell, and nothing is logged twice -/
def LogInv (w : World V) : Prop :=
  w.log.Nodup ∧ ∀ k ∈ w.log, w.get k.1 k.2 ≠ none

/-- cells are never removed -/
def Grows (w w' : World V) : Prop := ∀ s i, w.get s i ≠ none → w'.get s i ≠ none

theorem Grows.refl (w : World V) : Grows w w := fun _ _ h => h
theorem Grows.trans {a b c : World V} (h1 : Grows a b) (h2 : Grows b c) : Grows a c :=
  fun s i h => h2 s i (h1 s i h)

theorem grows_set_some (w : World V) (s i) (c : Cell V) : Grows w (w.set s i (some c)) := by
  intro s' i' h
  rw [World.get_set]
  split
  · simp
  · exact h

theorem once (S : Sys V) (hdefs : ∀ s i, NoPop (S.defs s i)) :
    ∀ f,
      (∀ sc w v, NoPop sc → LogInv w → (run S f sc w).1 = .ok v →
          LogInv (run S f sc w).2 ∧ Grows w (run S f sc w).2) ∧
      (∀ s i w v, LogInv w → (getItem S f s i w).1 = .ok v →
          LogInv (getItem S f s i w).2 ∧ Grows w (getItem S f s i w).2) := by
  intro f
  induction f with
  | zero =>
    refine ⟨?_, ?_⟩
    · intro sc w v _ _ h; simp [run] at h
    · intro s i w v _ h; simp [getItem] at h
  | succ f ih =>
    obtain ⟨ihr, ihg⟩ := ih
    refine ⟨?_, ?_⟩
    · intro sc w v hnp hw hok
      cases hnp with
      | pure v' => simp only [run]; exact ⟨hw, Grows.refl w⟩
      | fail e => simp [run] at hok
      | get s i k hk =>
        simp only [run] at hok ⊢
        generalize hres : getItem S f s i w = res at hok ⊢
        obtain ⟨out, w'⟩ := res
        cases out with
        | error e => simp at hok
        | ok v' =>
          simp only at hok ⊢
          have hg := ihg s i w v' hw (by rw [hres])
          rw [hres] at hg
          have hr := ihr (k v') w' v (hk v') hg.1 hok
          exact ⟨hr.1, hg.2.trans hr.2⟩
      | contains s i k hk =>
        simp only [run] at hok ⊢
        exact ihr _ w v (hk _) hw hok
      | user cb arg k hk =>
        simp only [run] at hok ⊢
        cases hf : S.fault w.calls with
        | some e => simp [hf] at hok
        | none =>
          simp only [hf] at hok ⊢
          have hw' : LogInv { w with calls := w.calls + 1 } := hw
          have hr := ihr (k (S.userSem cb arg)) _ v (hk _) hw' hok
          exact ⟨hr.1, fun s i h => hr.2 s i h⟩
    · intro s i w v hw hok
      simp only [getItem] at hok ⊢
      cases hcache : w.get s i with
      | some c =>
        cases c with
        | pending => simp [hcache] at hok
        | val v' => simp only; exact ⟨hw, Grows.refl w⟩
      | none =>
        simp only [hcache] at hok ⊢
        -- the key is new: it cannot be in the log
        have hnew : (s, i) ∉ w.log := fun hm => hw.2 (s, i) hm hcache
        have hw0 : LogInv { (w.set s i (some .pending)) with log := w.log ++ [(s, i)] } := by
          refine ⟨?_, ?_⟩
          · show (w.log ++ [(s, i)]).Nodup
            rw [List.nodup_append]
            refine ⟨hw.1, by simp, ?_⟩
            intro a ha b hb
            simp only [List.mem_singleton] at hb
            subst hb
            exact fun e => hnew (e ▸ ha)
          · intro k hk
            show (w.set s i (some .pending)).get k.1 k.2 ≠ none
            rw [World.get_set]
            split
            · simp
            · have : k ∈ w.log ++ [(s, i)] := hk
              rcases List.mem_append.mp this with h | h
              · exact hw.2 k h
              · simp only [List.mem_singleton] at h
                rename_i hne
                exact absurd (by rw [h]) hne
        have hg0 : Grows w { (w.set s i (some .pending)) with log := w.log ++ [(s, i)] } :=
          fun s' i' h => grows_set_some w s i .pending s' i' h
        generalize hres : run S f (S.defs s i) _ = res at hok ⊢
        obtain ⟨out, w'⟩ := res
        cases out with
        | error e => simp at hok
        | ok v' =>
          simp only at hok ⊢
          have hr := ihr (S.defs s i) _ v' (hdefs s i) hw0 (by rw [hres])
          rw [hres] at hr
          refine ⟨⟨hr.1.1, ?_⟩, ?_⟩
          · intro k hk
            show (w'.set s i (some (.val v'))).get k.1 k.2 ≠ none
            exact grows_set_some w' s i _ _ _ (hr.1.2 k hk)
          · exact (hg0.trans hr.2).trans (grows_set_some w' s i _)

/-- **exactly once**: starting from an empty world, after any successful pop-free execution the list
of evaluations that were started contains no element twice -/
theorem log_nodup (S : Sys V) (hdefs : ∀ s i, NoPop (S.defs s i)) (f : Nat) (sc : Script V) (hsc : NoPop sc)
    (v : V) (h : (run S f sc ⟨[], 0, []⟩).1 = .ok v) : (run S f sc ⟨[], 0, []⟩).2.log.Nodup := by
  have hw : LogInv (⟨[], 0, []⟩ : World V) := ⟨List.nodup_nil, by intro k hk; cases hk⟩
  exact ((once S hdefs f).1 sc _ v hsc hw h).1.1

end Machine
end Pyma
#print axioms Pyma.Machine.log_nodup
