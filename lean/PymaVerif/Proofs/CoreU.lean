/-
Theorem U: uniqueness of the least-action solution.
-/
import PymaVerif.Proofs.Filtered

namespace Pyma

namespace TheoremU
variable {S : Type*} [Ring S] [StarRing S]

structure Ctx (S : Type*) [Ring S] [StarRing S] where
  Φ : Filtration S
  two_mem : ∀ k (x : S), 2 * x ∈ Φ.F k → x ∈ Φ.F k
  star_mem : ∀ k (x : S), x ∈ Φ.F k → star x ∈ Φ.F k
  Sel : S →+ S
  Sel_mem : ∀ k (x : S), x ∈ Φ.F k → Sel x ∈ Φ.F k
  H0 : S
  H' : S
  H'mem : H' ∈ Φ.F 1
  H0comm : ∀ x, Sel (H0 * x - x * H0) = H0 * Sel x - Sel x * H0
  inj : ∀ k (x : S), Sel x = 0 → H0 * x - x * H0 ∈ Φ.F k → x ∈ Φ.F k

/-- `P` solves the defining equations. -/
structure Sol (c : Ctx S) (P : S) : Prop where
  mem : P ∈ c.Φ.F 1
  unit : (1 + star P) * (1 + P) = 1
  gauge : c.Sel (P - star P) = 0
  elim : (1 + star P) * (c.H0 + c.H') * (1 + P)
           - c.Sel ((1 + star P) * (c.H0 + c.H') * (1 + P)) = 0

variable (c : Ctx S) {P₁ P₂ : S}

theorem unique (h₁ : Sol c P₁) (h₂ : Sol c P₂) : P₁ = P₂ := by
  have key : ∀ k, P₁ - P₂ ∈ c.Φ.F (k+1) → P₁ - P₂ ∈ c.Φ.F (k+1+1) := by
    intro k hk
    set δ := P₁ - P₂ with hδ
    have hsδ : star δ ∈ c.Φ.F (k+1) := c.star_mem _ _ hk
    have hsP1 : star P₁ ∈ c.Φ.F 1 := c.star_mem _ _ h₁.mem
    have hsP2 : star P₂ ∈ c.Φ.F 1 := c.star_mem _ _ h₂.mem
    -- (i) Hermitian part
    have u1 : P₁ + star P₁ = -(star P₁ * P₁) := by
      have := h₁.unit
      calc P₁ + star P₁ = (1 + star P₁) * (1 + P₁) - 1 - star P₁ * P₁ := by noncomm_ring
        _ = _ := by rw [this]; abel
    have u2 : P₂ + star P₂ = -(star P₂ * P₂) := by
      have := h₂.unit
      calc P₂ + star P₂ = (1 + star P₂) * (1 + P₂) - 1 - star P₂ * P₂ := by noncomm_ring
        _ = _ := by rw [this]; abel
    have hη : δ + star δ = -(star P₁ * δ + star δ * P₂) := by
      have : δ + star δ = (P₁ + star P₁) - (P₂ + star P₂) := by
        rw [hδ, star_sub]; abel
      rw [this, u1, u2, hδ, star_sub]; noncomm_ring
    have hηmem : δ + star δ ∈ c.Φ.F (k+1+1) := by
      rw [hη]
      exact AddSubgroup.neg_mem _ (AddSubgroup.add_mem _ (c.Φ.mul_left_mem hsP1 hk)
        (c.Φ.mul_right_mem hsδ h₂.mem))
    -- (ii) gauge
    have hνsel : c.Sel (δ - star δ) = 0 := by
      have : δ - star δ = (P₁ - star P₁) - (P₂ - star P₂) := by rw [hδ, star_sub]; abel
      rw [this, map_sub, h₁.gauge, h₂.gauge, sub_zero]
    -- (iii) elimination
    set E₁ := (1 + star P₁) * (c.H0 + c.H') * (1 + P₁) with hE1
    set E₂ := (1 + star P₂) * (c.H0 + c.H') * (1 + P₂) with hE2
    have hE : E₁ - E₂ = c.Sel (E₁ - E₂) := by
      have a := sub_eq_zero.mp h₁.elim
      have b := sub_eq_zero.mp h₂.elim
      rw [map_sub, ← a, ← b]
    -- E₁ - E₂ = star δ H0 + H0 δ + rest, rest ∈ F (k+2)
    set rest := star δ * (c.H' + (c.H0 + c.H') * P₁) + (c.H' * δ + star P₂ * (c.H0 + c.H') * δ) with hrest
    have hdec : E₁ - E₂ = (star δ * c.H0 + c.H0 * δ) + rest := by
      rw [hE1, hE2, hrest, hδ, star_sub]; noncomm_ring
    have hrestmem : rest ∈ c.Φ.F (k+1+1) := by
      rw [hrest]
      refine AddSubgroup.add_mem _ ?_ (AddSubgroup.add_mem _ ?_ ?_)
      · refine c.Φ.mul_right_mem hsδ (AddSubgroup.add_mem _ c.H'mem ?_)
        exact c.Φ.mul_any_left _ h₁.mem
      · exact c.Φ.mul_left_mem c.H'mem hk
      · have : star P₂ * (c.H0 + c.H') * δ = star P₂ * ((c.H0 + c.H') * δ) := by noncomm_ring
        rw [this]
        exact c.Φ.mul_left_mem hsP2 (c.Φ.mul_any_left _ hk)
    -- 2 (star δ H0 + H0 δ) = (η H0 + H0 η) + (H0 ν - ν H0)
    have h2 : 2 * (star δ * c.H0 + c.H0 * δ)
        = ((δ + star δ) * c.H0 + c.H0 * (δ + star δ)) + (c.H0 * (δ - star δ) - (δ - star δ) * c.H0) := by
      noncomm_ring
    -- hence  H0 ν - ν H0 - Sel(...)  ∈ F (k+2)
    set comm := c.H0 * (δ - star δ) - (δ - star δ) * c.H0 with hcomm
    have hsel0 : c.Sel comm = 0 := by
      rw [hcomm, c.H0comm, hνsel]; noncomm_ring
    set junk := ((δ + star δ) * c.H0 + c.H0 * (δ + star δ)) + 2 * rest with hjunk
    have hjunkmem : junk ∈ c.Φ.F (k+1+1) := by
      rw [hjunk]
      refine AddSubgroup.add_mem _ (AddSubgroup.add_mem _ ?_ ?_) ?_
      · exact c.Φ.mul_any_right _ hηmem
      · exact c.Φ.mul_any_left _ hηmem
      · exact c.Φ.mul_any_left _ hrestmem
    have hcomm_eq : comm = 2 * (E₁ - E₂) - junk := by
      rw [hdec, hjunk, mul_add, h2]; abel
    have hcommmem : comm ∈ c.Φ.F (k+1+1) := by
      -- comm = comm - Sel comm = (2(E₁-E₂) - junk) - Sel(2(E₁-E₂) - junk) = -(junk - Sel junk)
      have e : comm = -(junk - c.Sel junk) := by
        have s1 : c.Sel (2 * (E₁ - E₂)) = 2 * (E₁ - E₂) := by
          rw [two_mul, map_add, ← hE]
        calc comm = comm - c.Sel comm := by rw [hsel0, sub_zero]
          _ = (2 * (E₁ - E₂) - junk) - c.Sel (2 * (E₁ - E₂) - junk) := by rw [← hcomm_eq]
          _ = -(junk - c.Sel junk) := by rw [map_sub, s1]; abel
      rw [e]
      exact AddSubgroup.neg_mem _ (AddSubgroup.sub_mem _ hjunkmem (c.Sel_mem _ _ hjunkmem))
    have hνmem : δ - star δ ∈ c.Φ.F (k+1+1) := c.inj _ _ hνsel hcommmem
    -- (iv)
    apply c.two_mem
    have : 2 * δ = (δ + star δ) + (δ - star δ) := by rw [two_mul]; abel
    rw [this]
    exact AddSubgroup.add_mem _ hηmem hνmem
  have : P₁ - P₂ = 0 := by
    apply c.Φ.eq_zero_of_contract
    intro k hk
    cases k with
    | zero => exact AddSubgroup.sub_mem _ h₁.mem h₂.mem
    | succ k => exact key k hk
  exact sub_eq_zero.mp this

/-! ## Transport: symmetries of the problem are symmetries of the solution -/

/-- a star-preserving ring homomorphism relating two problems, up to a central kept shift `z` -/
structure Hom {S' : Type*} [Ring S'] [StarRing S'] (c : Ctx S) (c' : Ctx S') (T : S →+* S') (z : S') : Prop where
  star : ∀ x, T (star x) = star (T x)
  mem : ∀ k x, x ∈ c.Φ.F k → T x ∈ c'.Φ.F k
  sel : ∀ x, T (c.Sel x) = c'.Sel (T x)
  ham : T (c.H0 + c.H') = c'.H0 + c'.H' + z
  central : ∀ y, z * y = y * z
  zsel : c'.Sel z = z

theorem Sol.map {S' : Type*} [Ring S'] [StarRing S'] {c : Ctx S} {c' : Ctx S'} {T : S →+* S'} {z : S'}
    (hT : Hom c c' T z) {P : S} (h : Sol c P) : Sol c' (T P) := by
  have hunit : (1 + star (T P)) * (1 + T P) = 1 := by
    have := congrArg T h.unit
    simpa [hT.star] using this
  refine ⟨hT.mem _ _ h.mem, hunit, ?_, ?_⟩
  · have := congrArg T h.gauge
    rw [hT.sel, map_sub, hT.star, map_zero] at this
    exact this
  · have helim := h.elim
    have hham := hT.ham
    generalize c.H0 + c.H' = H at helim hham
    have hTE : T ((1 + star P) * H * (1 + P)) = (1 + star (T P)) * T H * (1 + T P) := by
      rw [map_mul, map_mul, map_add, map_add, map_one, hT.star]
    have hE : (1 + star (T P)) * (c'.H0 + c'.H') * (1 + T P) = T ((1 + star P) * H * (1 + P)) - z := by
      have e : c'.H0 + c'.H' = T H - z := by rw [hham]; abel
      rw [e, hTE]
      calc (1 + star (T P)) * (T H - z) * (1 + T P)
          = (1 + star (T P)) * T H * (1 + T P) - (1 + star (T P)) * (z * (1 + T P)) := by
            noncomm_ring
        _ = (1 + star (T P)) * T H * (1 + T P) - (1 + star (T P)) * ((1 + T P) * z) := by
            rw [hT.central]
        _ = (1 + star (T P)) * T H * (1 + T P) - ((1 + star (T P)) * (1 + T P)) * z := by
            noncomm_ring
        _ = _ := by rw [hunit, one_mul]
    rw [hE, map_sub, hT.zsel, ← hT.sel]
    have := congrArg T helim
    rw [map_sub, map_zero] at this
    calc T ((1 + star P) * H * (1 + P)) - z - (T (c.Sel ((1 + star P) * H * (1 + P))) - z)
        = T ((1 + star P) * H * (1 + P)) - T (c.Sel ((1 + star P) * H * (1 + P))) := by abel
      _ = 0 := this

/-- **Transport**: a symmetry maps the solution of one problem to the solution of the other -/
theorem transport {S' : Type*} [Ring S'] [StarRing S'] {c : Ctx S} (c' : Ctx S') {T : S →+* S'} {z : S'}
    (hT : Hom c c' T z) {P : S} {P' : S'} (h : Sol c P) (h' : Sol c' P') : T P = P' :=
  unique c' (h.map hT) h'

end TheoremU

end Pyma
#print axioms Pyma.TheoremU.unique
#print axioms Pyma.TheoremU.transport
