/-
`W` of `main` is Hermitian and `2 W = -(U'† U')` holds as a series identity.
-/
import PymaVerif.Proofs.MainHerm

namespace Pyma
namespace BlockDiag
open Dsl Generated MvPowerSeries
namespace Problem

variable {K : Type} [Field K] [StarRing K] [DecidableEq K] [Thresholds K]
attribute [local instance] Scalar.ofField
variable (p : Problem K) (R : p.Ready) (hopt : p.twoBlockOptimized = false) (Y : p.Sym)
  (h2 : (2 : K) ≠ 0)

include R Y in
theorem sr_V_star : star (p.sr "V") = -p.sr "V" := by
  ext m a b
  rw [coeff_star_apply, map_neg, Matrix.neg_apply, coeff_sr]
  by_cases hm : m = 0
  · subst hm
    have h0 := p.g0_V R.wf R.tot (toList (0 : Fin p.nparams →₀ ℕ)) ((toList_all_zero 0).mpr rfl)
    rw [h0]; simp
  · exact p.V_antiherm R Y _ (toList_all_nonzero m hm) a b

theorem split_masks (M : Mt K p.d) :
    maskMap p.dgP M + maskMap p.upP M + maskMap p.loP M = M := by
  funext a b
  simp only [Matrix.add_apply, maskMap_apply, dgP, upP, loP]
  rcases Nat.lt_trichotomy (p.blk a.val) (p.blk b.val) with h | h | h
  · have h1 : ¬ p.blk a.val = p.blk b.val := by omega
    have h3 : ¬ p.blk a.val > p.blk b.val := by omega
    simp [h, h1, h3]
  · have h1 : ¬ p.blk a.val < p.blk b.val := by omega
    have h3 : ¬ p.blk a.val > p.blk b.val := by omega
    simp [h, h1, h3]
  · have h1 : ¬ p.blk a.val = p.blk b.val := by omega
    have h3 : ¬ p.blk a.val < p.blk b.val := by omega
    simp [h, h1, h3]

include R hopt Y h2 in
/-- the data of `CoreFill` for `main` -/
noncomputable def fillHyp : CoreFill.Hyp (Sr (Fin p.nparams) K p.d) where
  Φ := p.filt
  two_cancel := two_cancel_series h2
  two_mem := two_mem_series h2
  star_mem := p.star_mem_F
  Dg := coeffwise (maskMap p.dgP)
  Up := coeffwise (maskMap p.upP)
  Lo := coeffwise (maskMap p.loP)
  split := by
    intro x
    ext m : 1
    rw [map_add, map_add, coeff_coeffwise, coeff_coeffwise, coeff_coeffwise, p.split_masks]
  Dg_mem := fun k x hx => coeffwise_mem _ k x hx
  star_Dg := fun x => p.star_coeffwise_swap p.dgP p.dgP (by intro a b; simp [dgP, eq_comm]) x
  star_Up := fun x => p.star_coeffwise_swap p.upP p.loP (by intro a b; simp [upP, loP]) x
  star_Lo := fun x => p.star_coeffwise_swap p.loP p.upP (by intro a b; simp [upP, loP]) x
  W := p.sr "W"
  V := p.sr "V"
  Wmem := p.F1_W R
  Vmem := p.F1_V R
  Vstar := p.sr_V_star R Y
  eqDg := by
    rw [← p.sr_Q R, ← p.sr_P R]
    exact p.W_upper_eq R hopt h2 p.dgP (by intro a b h; simp [dgP] at h; omega)
  eqUp := by
    rw [← p.sr_Q R, ← p.sr_P R]
    exact p.W_upper_eq R hopt h2 p.upP (by intro a b h; simp [upP] at h; omega)
  fill := by
    ext m a b
    rw [coeff_coeffwise, maskMap_apply, coeff_star_apply, coeff_coeffwise, maskMap_apply, coeff_sr]
    simp only [loP, upP]
    by_cases h : p.blk a.val > p.blk b.val
    · have h' : p.blk b.val < p.blk a.val := h
      simp only [h, h', decide_true, ↓reduceIte]
      by_cases hm : m = 0
      · subst hm
        rw [p.g0_W R.wf R.tot _ ((toList_all_zero 0).mpr rfl)]; simp
      · exact p.g_W_lower R.wf R.tot _ (toList_all_nonzero m hm) a b h
    · have h' : ¬ p.blk b.val < p.blk a.val := h
      simp [h, h']

include R hopt Y h2 in
theorem sr_W_star : star (p.sr "W") = p.sr "W" := CoreFill.W_hermitian (p.fillHyp R hopt Y h2)

include R hopt Y h2 in
theorem sr_eqW : 2 * p.sr "W" = -((p.sr "W" - p.sr "V") * (p.sr "W" + p.sr "V")) :=
  CoreFill.eqW (p.fillHyp R hopt Y h2)

end Problem
end BlockDiag
end Pyma
#print axioms Pyma.BlockDiag.Problem.sr_eqW
