"""C09 for generated programs: the real `series_computation` (compiler + runtime) against the Lean reference evaluator `Dsl.getElem`
(driver command `prog`; sound and complete for the relational reference semantics: `C09_evaluator_sound/complete`).

A case: a random *well-founded* program of the documented mini-language — 2-5 series over one input `H`, start values 0 / 1 / "H_0" / none,
hermitian / antihermitian markers, default / diagonal / offdiagonal / lower clauses (several of a kind add up), expressions of depth <= 3 over
series names, adjoints, unary minus, sums, differences, integer divisions, `zero if flag else e` with plain and `index[0]`-indexed flags, scope
functions applied to an input series and to expressions (also nested and under conditions), declared Cauchy products of 2-3 factors
(Hermitian ones only as `X† @ X`) — with the rank discipline that makes it well-founded: a series refers, at the same order, only to the
input, to series of lower rank, and to products all of whose factors start at 0.
The program text is written to a scratch module, compiled by the real `series_computation`, its source is translated to JSON by the same
translator that translates `algorithms.py`, and every element of every series (outputs AND intermediates that the compiler may delete after
use) up to order 3 is requested in random order from both sides.  Scope: `f(x, index) = x * (c1 + c2 (i + 2j))`, `diag` = identity,
`offdiag` = halving or absent; blocks of sizes 1-2; integer Gaussian entries, some elements absent (`zero`).  Relative tolerance 1e-9."""
import os, sys; sys.path.insert(0, os.path.dirname(os.path.abspath(__file__)))
from common import case_rnd, skip
import json, subprocess, itertools, importlib.util, warnings, tempfile, shutil
from fractions import Fraction
import numpy as np
warnings.simplefilter("ignore")
HERE = os.path.dirname(os.path.abspath(__file__)); sys.path.insert(0, os.path.join(os.path.dirname(HERE), "tools"))
import translate
from pymablock.series import BlockSeries, zero, one
from pymablock.algorithm_parsing import series_computation

FNS = {"f": (2, 1), "g": (1, -1)}

def gen_program(rnd, fname):
    ns = rnd.randint(2, 5)
    # names in the library's own style: primes and suffixes, so that one name (or one product name) is a string prefix of another
    names = [f"S{k}" for k in range(ns)] if rnd.random() < 0.5 else sorted(rnd.sample(["A", "A'", "A''", "B", "B2", "B20", "C"], ns))
    starts = [rnd.choice(["0", "0", "0", "none", '"H_0"', "1"]) for _ in range(ns)]
    starts[0] = rnd.choice(["0", "0", '"H_0"'])
    zero_start = [n for n, s in zip(names, starts) if s == "0"]
    products = []; adjoint_of = {}
    # declared products: factors must all start at 0
    for _ in range(rnd.randint(0, 2)):
        if not zero_start: break
        k = rnd.choice([2, 2, 3]); fs = [rnd.choice(zero_start) for _ in range(k)]
        if products and rnd.random() < 0.5:
            # a longer product whose name extends the name of an earlier one without having it as its leading factors
            head = products[0][0].split(" @ "); ext = [n for n in zero_start if n != head[-1] and n.startswith(head[-1])]
            if ext: fs = head[:-1] + [rnd.choice(ext), rnd.choice(zero_start)]
        if " @ ".join(fs) not in [p for p, _ in products]: products.append((" @ ".join(fs), False))
    lines = [f"def {fname}():"]
    def leaf(rank, allow_prod=True):
        opts = ['"H"', '"H"']
        opts += [f'"{n}"' for n in names[:rank]]
        if allow_prod: opts += [f'"{p}"' for p, _ in products]
        x = rnd.choice(opts)
        # the `one` sentinel "does not support any methods" (series.py): no adjoint of a series that starts with the identity
        if rnd.random() < 0.25 and not any(x == f'"{n_}"' and s_ == "1" for n_, s_ in zip(names, starts)): x = x + ".adj"
        return x
    def expr(rank, depth):
        r = rnd.random()
        if depth == 0 or r < 0.3: return leaf(rank)
        if r < 0.45: return f"-{expr(rank, depth - 1)}" if rnd.random() < 0.5 else f"({expr(rank, depth - 1)}) / {rnd.choice([2, -2, 3])}"
        if r < 0.7: return f"({expr(rank, depth - 1)} {rnd.choice('+-')} {expr(rank, depth - 1)})"
        if r < 0.8: return f'{rnd.choice("fg")}("H")'
        if r < 0.9:
            inner = expr(rank, depth - 1)
            # a bare series name as argument hands the *series* to the function (it indexes it itself); the model's scope functions can do
            # that for input series only, so any other bare name is made an expression
            if inner.startswith('"') and inner.endswith('"') and inner != '"H"': inner = f"({inner} + zero)"
            return f"{rnd.choice('fg')}({inner})"
        fl = rnd.choice(["flag_a", "flags_b[index[0]]"])
        return f"(zero if {fl} else {expr(rank, depth - 1)})"
    for rank, (n, st) in enumerate(zip(names, starts)):
        lines.append(f'    with "{n}":')
        if st != "none": lines.append(f"        start = {st}")
        marker = rnd.choice([None, None, "hermitian", "antihermitian"])
        if marker and st != "1": lines.append(f"        {marker}")
        nclauses = rnd.randint(1, 3)
        for _ in range(nclauses):
            cond = rnd.choice(["default", "default", "diagonal", "offdiagonal", "lower"])
            e = expr(rank, rnd.randint(1, 3))
            if st == "1" or "1" in starts[:rank]:
                pass
            if cond == "default": lines.append(f"        {e}")
            else: lines.append(f"        if {cond}:\n            {e}")
        lines.append("")
    if zero_start and rnd.random() < 0.5:
        a = rnd.choice(zero_start); ad = a + "d"
        lines += [f'    with "{ad}":', "        start = 0", f'        "{a}".adj', ""]
        lines += [f'    with "{ad} @ {a}":', "        hermitian", ""]
        lines += [f'    with "T":', "        start = 0", f'        "{ad} @ {a}" / 2', ""]
        names = names + [ad, "T"]
    for p, _ in products: lines += [f'    with "{p}":', "        pass", ""]
    outs = rnd.sample(names, rnd.randint(1, len(names)))
    lines.append("    return " + ", ".join(f'"{o}"' for o in outs))
    return "\n".join(lines) + "\n", names, [p for p, _ in products]

def parse_model(line, d):
    res = []
    for tok in line.strip().split("|"):
        if tok == "zero": res.append(("zero", None))
        elif tok.startswith("err") or tok.startswith("bad") or " " not in tok: res.append(("err", tok))       # (an error of the evaluator or of the request itself)
        else:
            kind, payload = tok.split(" ", 1); ents = payload.split(";")
            def pr(s_): a, b = s_.split("/"); return float(Fraction(int(a), int(b)))
            full = np.zeros((d, d), dtype=complex)
            for k_, e in enumerate(ents):
                re, im = e.split(","); full[k_ // d, k_ % d] = complex(pr(re), pr(im))
            res.append((kind, full))
    return res

def main(seed, ncases, driver, out):
    proc = subprocess.Popen([driver], stdin=subprocess.PIPE, stdout=subprocess.PIPE, text=True)
    work = tempfile.mkdtemp(prefix="proggen-", dir=os.path.join(os.path.dirname(HERE), ".work") if os.path.isdir(os.path.join(os.path.dirname(HERE), ".work")) else None)
    failures = []; dist = {}; samples = []; evals = 0; distinct = 0; feat = {}
    try:
        for c in range(ncases):
            if skip(c): continue
            rnd = case_rnd(seed, c); fname = f"prog_{seed}_{c % 7}"          # names (and module names) recur: a redefined algorithm of the same name is another algorithm
            src, names, prods = gen_program(rnd, fname)
            os.makedirs(os.path.join(work, str(c)), exist_ok=True)          # (a file of its own per case: no stale source or byte-code caches)
            path = os.path.join(work, str(c), fname + ".py"); open(path, "w").write("# ruff: noqa\n" + src)
            for key in ("hermitian", "antihermitian", "diagonal", "offdiagonal", "lower", ".adj", "flag_a", "flags_b", 'f(', 'g(', " @ ", '"H_0"', "start = 1", " / "):
                if key in src: feat[key] = feat.get(key, 0) + 1
            N = rnd.randint(1, 3); sizes = [rnd.randint(1, 2) for _ in range(N)]; d = sum(sizes); off = np.cumsum([0] + sizes)
            blocks = sum([[b] * s_ for b, s_ in enumerate(sizes)], [])
            rng = np.random.default_rng(rnd.randrange(2**31)); cplx = rnd.random() < 0.5
            data = {}
            for n in range(0, 3):
                for i in range(N):
                    for j in range(N):
                        if rnd.random() < 0.25: continue
                        m = rng.integers(-2, 3, size=(sizes[i], sizes[j])).astype(complex)
                        if cplx: m = m + 1j * rng.integers(-1, 2, size=m.shape)
                        data[(i, j, n)] = m
            flag_a = rnd.random() < 0.3; flags_b = [rnd.random() < 0.4 for _ in range(N)]; use_offdiag = rnd.random() < 0.5
            desc = {"case": c, "source": src, "sizes": sizes, "flag_a": flag_a, "flags_b": flags_b, "offdiag": use_offdiag,
                    "absent": sorted([list(k) for k in itertools.product(range(N), range(N), range(3)) if k not in data])}
            if len(samples) < 2: samples.append(desc)
            try:
                pj = translate.program_json_from_source(src, fname)
            except Exception as e:
                failures.append(dict(desc, kind="generator-produced-untranslatable-program", error=str(e)[:200])); continue
            def wrap(c1, c2):
                def fn(x, index):
                    x = x[index] if isinstance(x, BlockSeries) else x
                    return zero if x is zero else x * (c1 + c2 * (index[0] + 2 * index[1]))
                return fn
            def half(x, index):
                x = x[index] if isinstance(x, BlockSeries) else x
                if x is one: return one          # (the harness's own scope function, as the model's: the identity sentinel passes unchanged)
                return zero if x is zero else x * 0.5
            scope = {k_: wrap(*v) for k_, v in FNS.items()}
            scope.update({"flag_a": flag_a, "flags_b": flags_b, "diag": lambda x, index: (x[index] if isinstance(x, BlockSeries) else x),
                          "offdiag": half if use_offdiag else None,
                          "use_linear_operator": np.zeros((N, N), dtype=bool)})
            H = BlockSeries(data=dict(data), shape=(N, N), n_infinite=1, name="H")
            spec = importlib.util.spec_from_file_location(fname, path); mod = importlib.util.module_from_spec(spec); spec.loader.exec_module(mod)
            try:
                outs, _ = series_computation({"H": H}, algorithm=getattr(mod, fname), scope=scope)
                impl_names = list(outs)
            except Exception as e:
                failures.append(dict(desc, kind="compiler-raises", error=type(e).__name__ + ": " + str(e)[:160])); continue
            all_names = [x for x in names + prods if x in impl_names]
            reqs = [(nm, i, j, n) for nm in all_names for i in range(N) for j in range(N) for n in range(0, 4)]; rnd.shuffle(reqs)
            def full(m, i, j):
                f_ = np.zeros((d, d), dtype=complex); f_[off[i]:off[i + 1], off[j]:off[j + 1]] = m; return f_
            def gs(z): return f"{int(round(z.real))}/1,{int(round(z.imag))}/1"
            req = {"cmd": "prog", "prog": pj, "d": d, "blocks": blocks, "nblocks": N, "input_names": ["H"],
                   "inputs": [{"name": "H", "idx": [i, j, n], "mat": [gs(z) for z in full(m, i, j).reshape(-1)]} for (i, j, n), m in data.items()],
                   "flags": [{"name": "flag_a", "value": flag_a}], "iflags": [{"name": "flags_b", "values": flags_b}],
                   "fns": [{"name": k_, "c1": f"{v[0]}/1", "c2": f"{v[1]}/1"} for k_, v in FNS.items()],
                   "offdiag": "1/2" if use_offdiag else None,
                   "requests": [{"name": nm, "i": i, "j": j, "n": [n]} for (nm, i, j, n) in reqs]}
            proc.stdin.write(json.dumps(req) + "\n"); proc.stdin.flush(); line = proc.stdout.readline()
            if line.startswith("bad"):
                failures.append(dict(desc, kind="driver-rejected", detail=line.strip()[:200])); continue
            model = parse_model(line, d); bad = None
            for (nm, i, j, n), mv in zip(reqs, model):
                evals += 1
                try:
                    a = outs[nm][i, j, n]; aerr = None
                except Exception as e:
                    a = None; aerr = type(e).__name__ + ": " + str(e)[:100]
                if mv[0] == "err" or aerr is not None:
                    if (mv[0] == "err") != (aerr is not None):
                        bad = {"kind": "error-on-one-side-only", "request": [nm, i, j, n], "impl": aerr or "value", "model": mv[1] if mv[0] == "err" else "value"}; break
                    continue
                if a is one: a = np.eye(sizes[i])
                za = np.zeros((d, d), dtype=complex) if a is zero else full(np.asarray(a, dtype=complex), i, j)
                zb = np.zeros((d, d), dtype=complex) if mv[0] == "zero" else mv[1]
                err = float(np.abs(za - zb).max())
                if err > 1e-9 * (1 + float(np.abs(zb).max())):
                    bad = {"kind": "differs-from-reference-semantics", "request": [nm, i, j, n], "abs_err": err}; break
            distinct += 1
            if bad: failures.append(dict(desc, **bad))
    finally:
        proc.stdin.close(); shutil.rmtree(work, ignore_errors=True)
    json.dump({"evaluations": evals, "cases": ncases, "distinct_nontrivial": distinct, "failures": failures, "distribution": feat, "samples": samples}, open(out, "w"))

if __name__ == "__main__":
    main(int(sys.argv[1]), int(sys.argv[2]), sys.argv[3], sys.argv[4])
