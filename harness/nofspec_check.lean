import PymaVerif.Model.NofSpec
open Pyma Pyma.Nof

/-- all power vectors with entries in a range, per kind -/
def powersFor (c : Ctx) : List (List Int) :=
  c.kinds.foldr (fun k acc =>
    let rng : List Int := if k == .boson || k == .ladder then [-2, -1, 0, 1, 2] else [-1, 0, 1]
    rng.flatMap fun p => acc.map fun rest => p :: rest) [[]]

def statesFor (c : Ctx) : List Occ :=
  c.kinds.foldr (fun k acc =>
    let rng : List Int := if k == .boson then [0, 1, 2, 3] else if k == .ladder then [-1, 0, 2] else [0, 1]
    rng.flatMap fun n => acc.map fun rest => n :: rest) [[]]

/-- a coefficient that depends on every occupation, in a canonical way for finite modes -/
def coeffFor (c : Ctx) (pws : List Int) : Occ → GRat := fun N =>
  (List.range c.n).foldl (fun acc j =>
    let dep : Bool := c.isInf j || pws.getD j 0 == 0
    if dep then acc * ofInt (2 * (j : Int) + 3 + Occ.get N j) else acc) 1

def check (c : Ctx) : Nat × Nat := Id.run do
  let mut bad := 0
  let mut tot := 0
  for pws in powersFor c do
    let t : Term := { powers := pws, coeff := coeffFor c pws }
    for s in statesFor c do
      tot := tot + 1
      let (tg, amp) := specX c t s
      match termAct c t s with
      | some (s', a) =>
          if !(s' == tg && a.re == amp.re && a.im == amp.im) then
            if !(a.isZero && amp.isZero) then bad := bad + 1
      | none => if !amp.isZero then bad := bad + 1
  return (bad, tot)

#eval check ⟨[.boson]⟩
#eval check ⟨[.boson, .ladder]⟩
#eval check ⟨[.spin, .fermion]⟩
#eval check ⟨[.fermion, .fermion, .fermion]⟩
#eval check ⟨[.boson, .spin, .fermion, .fermion]⟩
