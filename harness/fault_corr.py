"""C11 on the real code at the level of `block_diagonalize`: faults injected into the caller's callbacks.

A case: a small numeric problem (2-3 blocks, 1-2 perturbation parameters) handed over in a format that keeps callbacks of the caller alive
inside the computation —
  * the Hamiltonian as a BlockSeries whose `eval` is the caller's function: of full matrices (blocks by `subspace_indices`), already
    separated into blocks (an N x N series), or a scalar series whose terms are nested lists of blocks;
  * a Sylvester solver of the caller (a wrapper around the library's diagonal solver),
and a schedule of requests on H_tilde, U, U_inv (single elements and slices of orders, in a random order).
Reference: the schedule on an undisturbed computation, counting the callback invocations K.  Then, for injection points k < K (all of them
when K is small, a sample otherwise) and an exception type (Exception / OSError / FloatingPointError / RuntimeError subclasses,
KeyboardInterrupt): a fresh computation in which the k-th invocation raises once.  Demanded of every request of the schedule:
  * if it raises, what reaches the caller is the injected exception object itself — or, for RuntimeErrors, a chain of RuntimeErrors whose
    cause it is (BlockSeries re-raises those with the name of the element) —, and the same request made again returns;
  * every value returned equals the value of the undisturbed computation (1e-12 relative), whatever happened before;
  * the caller's exception is raised exactly once (the fault fires once) — a fault that is swallowed is a failure too."""
import os, sys; sys.path.insert(0, os.path.dirname(os.path.abspath(__file__)))
from common import case_rnd, skip
import json, warnings, itertools
import numpy as np
warnings.simplefilter("ignore")
from pymablock import block_diagonalize
from pymablock.block_diagonalization import solve_sylvester_diagonal
from pymablock.series import BlockSeries, zero, one

class UserError(Exception): pass
class UserRuntime(RuntimeError): pass
KINDS = {"Exception": UserError, "OSError": OSError, "FloatingPointError": FloatingPointError, "RuntimeError": UserRuntime,
         "RecursionError": RecursionError, "KeyboardInterrupt": KeyboardInterrupt,
         # the types the library's own code catches somewhere (look-ups, conversions, validation): a caller's exception of such a type is still the caller's
         "KeyError": KeyError, "IndexError": IndexError, "TypeError": TypeError, "ValueError": ValueError, "AttributeError": AttributeError}

def gen(rnd):
    fmt = rnd.choice(["series-full", "series-blocks", "series-nested", "dict", "series-implicit"])
    N = rnd.choice([2, 2, 3]); sizes = [rnd.randint(1, 2) for _ in range(N)]; k = rnd.choice([1, 1, 2])
    if fmt == "series-implicit": sizes[-1] = rnd.randint(2, 3)      # (the last block is the implicit one: the rest of the space)
    d = sum(sizes)
    rng = np.random.default_rng(rnd.randrange(2**31)); cplx = rnd.random() < 0.4
    off = [0]
    for s in sizes: off.append(off[-1] + s)
    E = np.concatenate([10.0 * b + np.arange(s) * 2.5 + rng.uniform(0, 1, size=s) for b, s in enumerate(sizes)])
    def herm():
        m = rng.normal(size=(d, d)) + (1j * rng.normal(size=(d, d)) if cplx else 0); return (m + m.conj().T) / 2
    terms = {(0,) * k: np.diag(E).astype(complex if cplx else float)}
    for n in itertools.product(range(3), repeat=k):
        if 1 <= sum(n) <= 2 and (sum(n) == 1 or rnd.random() < 0.4): terms[n] = herm()
    solver = (rnd.random() < 0.6 or fmt == "dict") and fmt != "series-implicit"
    fd = tuple(b for b in range(N) if rnd.random() < 0.3) if not solver else ()      # (full diagonalisation is not offered with a solver of the caller's)
    if fmt == "series-implicit": fd = tuple(b for b in fd if b != N - 1)
    # the schedule
    maxo = 3 if k == 1 else 2; reqs = []
    for _ in range(rnd.randint(4, 7)):
        s = rnd.choice(["H_tilde", "H_tilde", "U", "U_inv"]); i = rnd.randrange(N); j = i if (s == "H_tilde" and rnd.random() < 0.7) else rnd.randrange(N)
        if rnd.random() < 0.3: item = (i, j) + tuple(slice(0, rnd.randint(1, maxo + 1)) if a == 0 else rnd.randint(0, 1) for a in range(k))
        else:
            n = [rnd.randint(0, maxo) for _ in range(k)]
            while sum(n) > maxo: n[rnd.randrange(k)] -= 1
            item = (i, j) + tuple(n)
        reqs.append((s, item))
    return dict(N=N, sizes=sizes, off=off, k=k, terms=terms, fmt=fmt, solver=solver, fd=fd, reqs=reqs, cplx=cplx)

def run(P, fault):
    """fault = None | (k, kind): the k-th callback invocation raises.  -> (list of per-request outcomes, number of callback invocations, the injected object)"""
    N, off, k, terms = P["N"], P["off"], P["k"], P["terms"]
    count = [0]; injected = [None]
    def tick(where):
        c = count[0]; count[0] += 1
        if fault is not None and c == fault[0] and injected[0] is None:
            injected[0] = KINDS[fault[1]](f"injected at callback {c} ({where})"); raise injected[0]
    def cut(m): return [[m[off[i]:off[i + 1], off[j]:off[j + 1]].copy() for j in range(N)] for i in range(N)]
    kw = {"fully_diagonalize": P["fd"]} if P["fd"] else {}
    if P["fmt"] == "series-full":
        def ev(*n): tick("term"); return terms[n].copy() if n in terms else zero
        H = BlockSeries(eval=ev, shape=(), n_infinite=k); kw["subspace_indices"] = sum([[b] * s for b, s in enumerate(P["sizes"])], [])
    elif P["fmt"] == "series-implicit":
        # implicit mode: eigenvectors of the first blocks only (H_0 is diagonal: unit vectors), the last block is a linear operator on the whole space
        def ev(*n): tick("term"); return terms[n].copy() if n in terms else zero
        H = BlockSeries(eval=ev, shape=(), n_infinite=k); dd = sum(P["sizes"])
        kw["subspace_eigenvectors"] = [np.eye(dd)[:, off[b]:off[b + 1]] for b in range(N - 1)]
    elif P["fmt"] == "series-nested":
        def ev(*n): tick("term"); return cut(terms[n]) if n in terms else zero
        H = BlockSeries(eval=ev, shape=(), n_infinite=k)
    elif P["fmt"] == "series-blocks":
        def ev(i, j, *n):
            tick("term")
            if tuple(n) not in terms: return zero
            b = terms[tuple(n)][off[i]:off[i + 1], off[j]:off[j + 1]].copy()
            return zero if not np.any(b) else b
        H = BlockSeries(eval=ev, shape=(N, N), n_infinite=k)
    else:
        H = {n: m.copy() for n, m in terms.items()}; kw["subspace_indices"] = sum([[b] * s for b, s in enumerate(P["sizes"])], [])
    if P["solver"]:
        E = np.diag(terms[(0,) * k]).real
        inner = solve_sylvester_diagonal(tuple(E[off[b]:off[b + 1]] for b in range(N)))
        def solve(Y, index): tick("solver"); return inner(Y, index)
        kw["solve_sylvester"] = solve
    outcomes = []
    try:
        Ht, U, Ui = block_diagonalize(H, **kw)
    except BaseException as e:
        return [("setup-raised", e)], count[0], injected[0]
    S = {"H_tilde": Ht, "U": U, "U_inv": Ui}
    for (s, item) in P["reqs"]:
        try: outcomes.append(("value", S[s][item]))
        except BaseException as e:
            rec = ["raised", e]
            try: rec += ["value", S[s][item]]
            except BaseException as e2: rec += ["raised-again", e2]
            outcomes.append(tuple(rec))
    return outcomes, count[0], injected[0]

def same(a, b):
    if isinstance(a, np.ma.MaskedArray) or isinstance(b, np.ma.MaskedArray):
        if not (isinstance(a, np.ma.MaskedArray) and isinstance(b, np.ma.MaskedArray)) or a.shape != b.shape: return False
        return all(same(x, y) for x, y in zip(a.filled(zero).reshape(-1), b.filled(zero).reshape(-1)))
    if a is zero or b is zero or a is one or b is one: return a is b
    if hasattr(a, "toarray"): a = a.toarray()
    if hasattr(b, "toarray"): b = b.toarray()
    if hasattr(a, "matmat") and not isinstance(a, np.ndarray): a = a @ np.eye(a.shape[1])      # (blocks of the implicit part are linear operators)
    if hasattr(b, "matmat") and not isinstance(b, np.ndarray): b = b @ np.eye(b.shape[1])
    if not (isinstance(a, np.ndarray) and isinstance(b, np.ndarray)) or a.shape != b.shape: return False
    return bool(np.all(np.abs(a - b) <= 1e-12 * (1 + np.abs(b).max(initial=0))))

def reaches(raised, injected):
    """the caller's exception object itself, or (RuntimeErrors) a chain of RuntimeErrors caused by it"""
    e = raised
    for _ in range(50):
        if e is injected: return True
        if not (isinstance(e, RuntimeError) and isinstance(injected, RuntimeError)): return False
        e = e.__cause__
        if e is None: return False
    return False

def main(seed, ncases, driver, out):
    failures = []; dist = {}; samples = []; evals = 0; distinct = 0
    for c in range(ncases):
        if skip(c): continue
        rnd = case_rnd(seed, c); P = gen(rnd)
        desc = {"case": c, "format": P["fmt"], "own_solver": P["solver"], "blocks": P["sizes"], "parameters": P["k"], "fd": list(P["fd"]),
                "requests": [[s, str(item)] for s, item in P["reqs"]]}
        try:
            ref, K, _ = run(P, None)
        except BaseException as e:
            failures.append(dict(desc, kind="harness-error-in-reference", error=type(e).__name__ + ": " + str(e)[:120])); continue
        if any(o[0] != "value" for o in ref):
            failures.append(dict(desc, kind="undisturbed-computation-raises", error=str([type(o[1]).__name__ + ": " + str(o[1])[:100] for o in ref if o[0] != "value"][:2]))); continue
        key = f"{P['fmt']} solver={P['solver']} callbacks={'<10' if K < 10 else '<40' if K < 40 else '>=40'}"; dist[key] = dist.get(key, 0) + 1
        if len(samples) < 3: samples.append(dict(desc, callbacks=K))
        points = list(range(K)) if K <= 12 else sorted(rnd.sample(range(K), 12))
        fired = 0
        for kpt in points:
            kind = rnd.choice(list(KINDS)); evals += 1
            try:
                got, _, inj = run(P, (kpt, kind))
            except BaseException as e:
                failures.append(dict(desc, kind="harness-error", fault=[kpt, kind], error=type(e).__name__ + ": " + str(e)[:120])); break
            fdesc = dict(desc, fault=[kpt, kind])
            if inj is None: continue                                  # (the schedule of this run did not reach the k-th invocation: nothing to observe)
            fired += 1
            if got and got[0][0] == "setup-raised":
                if not reaches(got[0][1], inj): failures.append(dict(fdesc, kind="fault-at-setup-not-propagated", raised=type(got[0][1]).__name__ + ": " + str(got[0][1])[:100]))
                continue
            nraised = 0; bad = None
            for r, (o, rf) in enumerate(zip(got, ref)):
                if o[0] == "value":
                    if not same(o[1], rf[1]): bad = bad or dict(kind="value-after-fault-differs", request=desc["requests"][r])
                    continue
                nraised += 1
                if not reaches(o[1], inj):
                    bad = bad or dict(kind="fault-not-propagated", request=desc["requests"][r], raised=type(o[1]).__name__ + ": " + str(o[1])[:100], injected=type(inj).__name__)
                if o[2] == "raised-again":
                    bad = bad or dict(kind="request-fails-again-after-the-fault", request=desc["requests"][r], raised=type(o[3]).__name__ + ": " + str(o[3])[:100])
                elif not same(o[3], rf[1]): bad = bad or dict(kind="value-after-fault-differs", request=desc["requests"][r], repeated=True)
            if nraised == 0: bad = bad or dict(kind="fault-swallowed", injected=type(inj).__name__)
            if nraised > 1: bad = bad or dict(kind="fault-raised-more-than-once", times=nraised)
            if bad: failures.append(dict(fdesc, **bad)); break
        if fired: distinct += 1
    json.dump({"evaluations": evals, "cases": ncases, "distinct_nontrivial": distinct, "failures": failures, "distribution": dist, "samples": samples}, open(out, "w"), default=str)

if __name__ == "__main__":
    main(int(sys.argv[1]), int(sys.argv[2]), sys.argv[3], sys.argv[4])
