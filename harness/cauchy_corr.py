"""Cauchy tie: real cauchy_dot_product vs the Lean model (values and which factor elements get evaluated)."""
import os, sys; sys.path.insert(0, os.path.dirname(os.path.abspath(__file__)))
from common import case_rnd, skip
import sys, json, random, subprocess, itertools, warnings
warnings.simplefilter("ignore")
import numpy as np
from fractions import Fraction
from pymablock.series import BlockSeries, cauchy_dot_product, zero, one

DRIVER = None
D = 2

def gen_case(rnd):
    k = rnd.choice([2, 2, 2, 3, 3, 4]); nparams = rnd.choice([1, 1, 2, 3])
    hermitian = rnd.random() < 0.4
    dims = [rnd.randint(1, 3) for _ in range(k + 1)]
    if hermitian:
        # make it a genuinely Hermitian product: A† A, A† B A with B Hermitian, or A† B† B A
        if k == 2: dims[2] = dims[0]
        elif k == 3: dims[2] = dims[1]; dims[3] = dims[0]
        else: dims[3] = dims[1]; dims[4] = dims[0]
    maxo = [rnd.randint(0, 2) for _ in range(nparams)]
    factors = []
    for f in range(k):
        elems = {}
        for i in range(dims[f]):
            for j in range(dims[f + 1]):
                for n in itertools.product(*[range(m + 1) for m in maxo]):
                    r = rnd.random()
                    if r < 0.35: continue
                    if r < 0.42 and dims[f] == dims[f + 1] and i == j and not any(n): elems[(i, j) + n] = "one"; continue
                    elems[(i, j) + n] = np.array([[rnd.randint(-2, 2) for _ in range(D)] for _ in range(D)], dtype=object)
        factors.append({"rows": dims[f], "cols": dims[f + 1], "elems": elems})
    def adjoint_of(fac):
        e1 = {}
        for (i, j, *n), v in fac["elems"].items():
            e1[(j, i, *n)] = v if isinstance(v, str) else v.T.copy()
        return {"rows": fac["cols"], "cols": fac["rows"], "elems": e1}
    if hermitian and k == 2:  # second factor = adjoint of first
        factors[1] = adjoint_of(factors[0])
    elif hermitian and k == 3:   # A† B A, B Hermitian
        B = factors[1]; eb = {}
        for (i, j, *n), v in B["elems"].items():
            if i <= j:
                eb[(i, j, *n)] = v if isinstance(v, str) or i != j else v + v.T
                if i != j: eb[(j, i, *n)] = v if isinstance(v, str) else v.T.copy()
        factors[1] = {"rows": B["rows"], "cols": B["cols"], "elems": eb}
        factors[0] = adjoint_of(factors[2])
    elif hermitian:              # A† B† B A
        factors[1] = adjoint_of(factors[2]); factors[0] = adjoint_of(factors[3])
    reqs = []
    for _ in range(rnd.randint(2, 6)):
        reqs.append([rnd.randrange(dims[0]), rnd.randrange(dims[k])] + [rnd.randint(0, m + 1) for m in maxo])
    return factors, hermitian, nparams, reqs

class OpBoom(Exception): pass
class OpBaseBoom(BaseException): pass
FAULTS = {"TypeError": TypeError, "ValueError": ValueError, "RuntimeError": RuntimeError, "RecursionError": RecursionError, "MemoryError": MemoryError,
          "KeyboardInterrupt": KeyboardInterrupt, "user": OpBoom, "base": OpBaseBoom}

def run_impl(factors, hermitian, nparams, reqs, fault=None):
    """`fault = (k, kind)`: the k-th multiplication of elements raises once; every request is then made twice"""
    logs = [[] for _ in factors]; series = []; calls = [0]
    def op(a, b):
        k = calls[0]; calls[0] += 1
        if fault is not None and k == fault[0]: raise FAULTS[fault[1]]("injected")
        return a @ b
    for f, fac in enumerate(factors):
        def ev(*idx, f=f, fac=fac):
            idx = tuple(int(x) for x in idx); logs[f].append(idx)
            v = fac["elems"].get(idx, zero)
            return one if isinstance(v, str) else v
        series.append(BlockSeries(eval=ev, shape=(fac["rows"], fac["cols"]), n_infinite=nparams, name=f"F{f}"))
    prod = cauchy_dot_product(*series, operator=op, hermitian=hermitian)
    outs = []; raised = []
    def show(v):
        if v is zero: return "zero"
        if v is one: return "one"
        return "val " + ";".join(f"{int(x)}/1,0/1" for x in np.asarray(v).reshape(-1))
    for r in reqs:
        try:
            outs.append(show(prod[tuple(r)]))
        except BaseException as e:
            if fault is None:
                if not isinstance(e, Exception): raise
                outs.append("E:" + type(e).__name__)
            else:
                raised.append(type(e).__name__ + (":" + type(e.__cause__).__name__ if e.__cause__ is not None else ""))
                try: outs.append(show(prod[tuple(r)]))          # the same request again: must be the undisturbed value
                except BaseException as e2: outs.append("E-again:" + type(e2).__name__)
    if fault is not None:
        from pymablock.series import PENDING
        def all_series(s, seen):
            return seen
        return outs, raised, calls[0]
    return outs, [sorted(set(l)) for l in logs], calls[0]

def run_two_operators(factors, hermitian, nparams, reqs):
    """the same series objects multiplied twice, with two different element products: a @ b, then 2 (a @ b) — the second product of k factors is
    2^(k-1) times the first, whatever was computed (and cached anywhere) for the first"""
    series = []
    for f, fac in enumerate(factors):
        def ev(*idx, fac=fac):
            v = fac["elems"].get(tuple(int(x) for x in idx), zero)
            return one if isinstance(v, str) else v
        series.append(BlockSeries(eval=ev, shape=(fac["rows"], fac["cols"]), n_infinite=nparams, name=f"F{f}"))
    pa = cauchy_dot_product(*series, operator=lambda a, b: a @ b, hermitian=hermitian)
    va = [pa[tuple(r)] for r in reqs]
    pb = cauchy_dot_product(*series, operator=lambda a, b: 2 * (a @ b), hermitian=hermitian)
    vb = [pb[tuple(r)] for r in reqs]
    bad = []
    for r, a, b in zip(reqs, va, vb):
        if (a is zero) != (b is zero): bad.append(list(r)); continue
        if a is zero: continue
        if not np.array_equal(np.asarray(b), 2 ** (len(factors) - 1) * np.asarray(a)): bad.append(list(r))
    return bad

def run_named(factors, hermitian, nparams, reqs, rnd):
    """the factors as series in named parameters (as they come out of a symbolic Hamiltonian): the product — also a product of a product — is a series
    in the same parameters, with the same values"""
    import sympy
    names = tuple(sympy.symbols("alpha beta gamma delta", real=True)[:nparams]) if rnd.random() < 0.7 else tuple("xyzw"[:nparams])
    series = []
    for f, fac in enumerate(factors):
        def ev(*idx, fac=fac):
            v = fac["elems"].get(tuple(int(x) for x in idx), zero)
            return one if isinstance(v, str) else v
        series.append(BlockSeries(eval=ev, shape=(fac["rows"], fac["cols"]), n_infinite=nparams, name=f"F{f}", dimension_names=names))
    prods = [("flat", cauchy_dot_product(*series, hermitian=hermitian))]
    if len(series) >= 3:
        prods.append(("product of a product", cauchy_dot_product(cauchy_dot_product(*series[:2]), *series[2:])))
        prods.append(("product with a product", cauchy_dot_product(series[0], cauchy_dot_product(*series[1:]))))
    def show(v):
        if v is zero: return "zero"
        if v is one: return "one"
        return "val " + ";".join(f"{int(x)}/1,0/1" for x in np.asarray(v).reshape(-1))
    res = {}
    for nm, p in prods:
        if tuple(p.dimension_names) != names: res[nm] = f"the product is a series in {tuple(p.dimension_names)}, its factors in {names}"; continue
        res[nm] = [show(p[tuple(r)]) for r in reqs]
    return res

def main(seed, ncases, driver, out):
    import re
    rnd = random.Random(seed); failures = []; stats = {}; samples = []; evals = 0; distinct = 0; fstats = {}
    proc = subprocess.Popen([driver], stdin=subprocess.PIPE, stdout=subprocess.PIPE, text=True)
    for c in range(ncases):
        if skip(c): continue
        rnd = case_rnd(seed, c)
        factors, hermitian, nparams, reqs = gen_case(rnd)
        outs, logs, ncalls = run_impl(factors, hermitian, nparams, reqs)
        js = {"cmd": "cauchy", "d": D, "hermitian": hermitian, "requests": reqs,
              "factors": [{"rows": f["rows"], "cols": f["cols"], "elems": [{"idx": list(k), "val": (v if isinstance(v, str) else [f"{int(x)}/1,0/1" for x in v.reshape(-1)])} for k, v in f["elems"].items()]} for f in factors]}
        proc.stdin.write(json.dumps(js) + "\n"); proc.stdin.flush()
        line = proc.stdout.readline().rstrip("\n")
        key = f"{len(factors)} factors, {nparams} params, hermitian={hermitian}"; stats[key] = stats.get(key, 0) + 1
        if len(samples) < 2: samples.append({"case": js})
        if line.startswith("bad"):
            failures.append({"case": c, "kind": "driver-rejected", "detail": line, "input": js}); continue
        vals, logstr = line.split("#log=")
        mvals = [("E:TypeError" if v == "E:user99" else v) for v in vals.split("|")]
        mlogs = [set() for _ in factors]
        for m in re.finditer(r"(\d+):\[([^\]]*)\]", logstr or ""):
            mlogs[int(m.group(1))].add(tuple(int(x) for x in m.group(2).split(",")))
        evals += len(reqs); distinct += 1
        if mvals != outs:
            failures.append({"case": c, "kind": "value-mismatch", "input": js, "impl": outs, "model": mvals})
        elif [sorted(l) for l in mlogs] != logs:
            # which factor elements get evaluated is compared with the model's reading of `product_by_order`; a difference alone (values agree)
            # breaks the correspondence, it is not yet a failing input of the property — unless an element was requested whose complementary
            # element of the other factor is absent (`zero` at the time), which the property forbids
            failures.append({"case": c, "kind": "request-log-mismatch", "correspondence_only": True, "input": js, "impl": logs, "model": [sorted(l) for l in mlogs]})
        elif c % 5 == 1 and not any(v.startswith("E:") for v in mvals) and not any(isinstance(v, str) for f in factors for v in f["elems"].values()):
            # (no identity sentinels: a nested product meets other sums of elements than the flat one, and `one` plus a matrix is a TypeError in either)
            fstats["named parameters"] = fstats.get("named parameters", 0) + 1
            try: named = run_named(factors, hermitian, nparams, reqs, rnd)
            except Exception as e: named = {"raises": type(e).__name__ + ": " + str(e)[:120]}
            badn = {k: v for k, v in named.items() if v != mvals}
            if badn: failures.append({"case": c, "kind": "product-of-series-in-named-parameters-differs", "input": js, "which": {k: str(v)[:200] for k, v in badn.items()}, "model": mvals})
        elif len(factors) >= 3 and c % 2 == 0 and not any(v.startswith("E:") for v in mvals) and not any(isinstance(v, str) for f in factors for v in f["elems"].values()):
            # (no identity sentinels among the elements: they are not passed through the operator)
            fstats["two operators on the same series"] = fstats.get("two operators on the same series", 0) + 1
            try: bad2 = run_two_operators(factors, hermitian, nparams, reqs)
            except Exception as e: bad2 = ["raises " + type(e).__name__ + ": " + str(e)[:80]]
            if bad2: failures.append({"case": c, "kind": "second-product-with-another-operator-differs", "input": js, "requests": bad2[:5]})
        elif ncalls > 0 and not any(v.startswith("E:") for v in mvals):
            # fault phase (C11): the k-th multiplication raises once; the exception must reach the caller (RuntimeError wrapped),
            # and the repeated request must return the model's undisturbed value
            fk = rnd.randrange(ncalls); kind = rnd.choice(sorted(FAULTS)); fstats[kind] = fstats.get(kind, 0) + 1
            fouts, raised, _ = run_impl(factors, hermitian, nparams, reqs, fault=(fk, kind))
            want_name = FAULTS[kind].__name__
            ok_raise = len(raised) == 1 and (raised[0].split(":")[0] == want_name and (kind != "RuntimeError" or True))
            if kind in ("RuntimeError", "RecursionError"): ok_raise = len(raised) == 1 and raised[0].startswith("RuntimeError")   # wrapped ("Failed to evaluate")
            if not ok_raise:
                failures.append({"case": c, "kind": "fault-not-propagated", "input": js, "fault": [fk, kind], "raised": raised})
            elif fouts != mvals:
                failures.append({"case": c, "kind": "value-after-fault-differs", "input": js, "fault": [fk, kind], "impl": fouts, "model": mvals})
    proc.stdin.close()
    json.dump({"evaluations": evals, "cases": ncases, "distinct_nontrivial": distinct, "failures": failures, "distribution": stats, "samples": samples,
               "extra": {"operator_faults_injected": fstats}}, open(out, "w"), default=str)

if __name__ == "__main__":
    main(int(sys.argv[1]), int(sys.argv[2]), sys.argv[3], sys.argv[4])
