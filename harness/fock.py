"""Independent exact Fock oracle in the unnormalised basis.  Operators act on dict state->Fraction."""
import itertools, sympy
from fractions import Fraction
from sympy.physics.quantum import Dagger
from sympy.physics.quantum.boson import BosonOp
from sympy.physics.quantum.fermion import FermionOp
from sympy.physics.quantum import pauli
# modes: list of (kind,name); state: tuple of ints
def apply_gen(modes, k, creation, vec):
    kind=modes[k][0]; out={}
    for st,amp in vec.items():
        n=st[k]
        if kind=='b':
            if creation: new=n+1; f=1
            else:
                if n==0: continue
                new=n-1; f=n
        elif kind=='l':
            new=n+1 if creation else n-1; f=1
        else:  # spin or fermion: occupation 0/1
            if creation:
                if n==1: continue
                new=1; f=1
            else:
                if n==0: continue
                new=0; f=1
            if kind=='f':
                # JW sign: count fermion occupations before k
                s=sum(st[i] for i in range(k) if modes[i][0]=='f')
                if s%2: f=-f
        ns=st[:k]+(new,)+st[k+1:]
        out[ns]=out.get(ns,0)+amp*f
    return {s:a for s,a in out.items() if a!=0}
def apply_word(modes, word, vec):
    """word: list of ('op',k,creation) or ('N',k) or ('c',Fraction), applied right-to-left"""
    for w in reversed(word):
        if w[0]=='op': vec=apply_gen(modes,w[1],w[2],vec)
        elif w[0]=='N': vec={s:a*s[w[1]] for s,a in vec.items() if s[w[1]]!=0}
        elif w[0]=='c': vec={s:a*w[1] for s,a in vec.items()}
    return vec
def nof_apply(modes, nof, ops, placeholders, st):
    """apply a NumberOrderedForm (pymablock object) to basis state st using term semantics; the form may list a subset of `ops`, in its own order"""
    out={}
    nops=list(nof.args[0]); idx=[ops.index(o) for o in nops]
    for powers,coeff in nof.args[1]:
        powers=[int(p) for p in powers]
        vec={st:Fraction(1)}
        # annihilators: rightmost is operators[0]; apply a_0 first ... per as_expr: coeff * op_last^p ... * op_first^p
        for k in range(len(nops)):
            if powers[k]>0:
                for _ in range(powers[k]): vec=apply_gen(modes,idx[k],False,vec)
        new={}
        for s,a in vec.items():
            val=coeff.xreplace({placeholders[k]:sympy.Integer(s[k]) for k in range(len(ops))}).subs({sym:1 for sym in coeff.free_symbols if sym not in placeholders})
            if val==0: continue
            if not val.is_Rational: raise ValueError(f'non-rational coefficient value {val} from {coeff} at {s} powers {powers}')
            new[s]=a*Fraction(int(val.p),int(val.q))
        vec=new
        for k in reversed(range(len(nops))):
            if powers[k]<0:
                for _ in range(-powers[k]): vec=apply_gen(modes,idx[k],True,vec)
        for s,a in vec.items(): out[s]=out.get(s,0)+a
    return {s:a for s,a in out.items() if a!=0}
