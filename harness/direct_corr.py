"""C16 (direct solver) on the real code, called directly: `solve_sylvester_direct(h_0, eigenvectors, nonhermitian=...)`.

H_0 = R diag(ev) L^H with a well-conditioned biorthogonal pair (R, L) (R = L unitary in the Hermitian stratum), real or complex, some
explicit levels degenerate, the explicit vectors in arbitrary order and split over one or two subspaces, the rest implicit.  Every
solve is compared with the closed form in the complete eigenbasis, which the solver never sees:
  right-implicit (i, B):  V = ((Y R_B) / (E_i - ev_B)) L_B^H         (E_i V - V H_0 = Y P,  V = V P)
  left-implicit  (B, i):  V = R_B ((L_B^H Y) / (ev_B - E_i))         (H_0 V - V E_i = P Y,  V = P V)   [needs nonhermitian=True]
  explicit (i, j):        V = Y / (E_i - E_j), zero where the energies coincide
and the residual of the equation is evaluated as well.  `nonhermitian` is set independently of the kind of H_0: right-implicit and
explicit solves are legitimate without it, a left-implicit solve must then raise NotImplementedError."""
import os, sys; sys.path.insert(0, os.path.dirname(os.path.abspath(__file__)))
from common import case_rnd, skip
import json, warnings
import numpy as np
from scipy import sparse
warnings.simplefilter("ignore")
from pymablock.block_diagonalization import solve_sylvester_direct, solve_sylvester_KPM
from pymablock.series import zero
import implicit_corr as IC

def main(seed, ncases, driver, out):
    failures = []; dist = {}; samples = []; evals = 0; distinct = 0; worst = 0.0
    for c in range(ncases):
        if skip(c): continue
        rnd = case_rnd(seed, c); P = IC.gen(rnd, nh_only=(c % 3 == 0)); N = P["N"]; R, L, ev = P["R"], P["L"], P["ev"]; herm = P["herm"]
        rng = np.random.default_rng(rnd.randrange(2**31))
        parts = P["parts"]; nb = len(parts); rest = [a for a in range(N) if a >= P["dA"]]
        flag = (not herm) if rnd.random() < 0.6 else (rnd.random() < 0.5)
        pairs = (not herm) or rnd.random() < 0.2
        vecs = [((R[:, p], L[:, p]) if pairs else R[:, p]) for p in parts]
        h0 = sparse.csr_array(P["H0"] if np.abs(np.asarray(P["H0"]).imag).max() > 0 else np.asarray(P["H0"]).real)
        key = f"hermitian_H0={herm} complex={P['cplx']} nonhermitian_flag={flag} subspaces={nb} degenerate={P['pattern']}"; dist[key] = dist.get(key, 0) + 1
        desc = {"case": c, "N": N, "hermitian_H0": herm, "complex": P["cplx"], "nonhermitian_flag": flag, "parts": parts, "ev": [str(complex(x)) for x in ev], "pattern": P["pattern"]}
        if len(samples) < 2: samples.append(desc)
        try:
            solve = solve_sylvester_direct(h0, vecs, nonhermitian=flag)
        except Exception as e:
            failures.append(dict(desc, kind="implementation-raises", error=type(e).__name__ + ": " + str(e)[:150])); continue
        RB, LB, eB = R[:, rest], L[:, rest], ev[rest]
        Pc = np.eye(N) - R[:, :P["dA"]] @ L[:, :P["dA"]].conj().T
        bad = None
        def rand(shape): return rng.normal(size=shape) + (1j * rng.normal(size=shape) if (P["cplx"] or rnd.random() < 0.3) else 0)      # mixed real/complex data
        def cmp(what, got, want, scale):
            nonlocal bad, evals, worst
            evals += 1; err = float(np.abs(np.asarray(got) - want).max()) / scale; worst = max(worst, err)
            if not err < 1e-8 and bad is None: bad = {"what": what, "relative_error": err}
        for i, p in enumerate(parts):
            Ei = ev[p]; si = len(p)
            # right-implicit
            Y = rand((si, N)); V = solve(Y, (i, nb, 1))
            want = ((Y @ RB) / (Ei[:, None] - eB[None, :])) @ LB.conj().T; sc = 1 + np.abs(want).max()
            cmp(f"right-implicit ({i}, B): closed form", V, want, sc)
            cmp(f"right-implicit ({i}, B): residual", Ei[:, None] * np.asarray(V) - np.asarray(V) @ P["H0"], Y @ Pc, sc * (1 + np.abs(ev).max()))
            # left-implicit
            Y = rand((N, si))
            try:
                V = solve(Y, (nb, i, 1)); raised = None
            except NotImplementedError as e: raised = e
            if flag:
                if raised is not None: bad = bad or {"what": f"left-implicit (B, {i}) raises although nonhermitian=True"}
                else:
                    want = RB @ ((LB.conj().T @ Y) / (eB[:, None] - Ei[None, :])); sc = 1 + np.abs(want).max()
                    cmp(f"left-implicit (B, {i}): closed form", V, want, sc)
                    cmp(f"left-implicit (B, {i}): residual", P["H0"] @ np.asarray(V) - np.asarray(V) * Ei[None, :], Pc @ Y, sc * (1 + np.abs(ev).max()))
            elif raised is None:
                # without the flag the left-implicit Green's functions are not prepared: the documented answer is NotImplementedError
                bad = bad or {"what": f"left-implicit (B, {i}) answered although nonhermitian=False"}
            # explicit-explicit
            for j, q in enumerate(parts):
                if i == j and rnd.random() < 0.5: continue
                Ej = ev[q]; Y = rand((si, len(q))); V = solve(Y, (i, j, 1))
                dE = Ei[:, None] - Ej[None, :]
                with np.errstate(divide="ignore", invalid="ignore"): want = np.where(np.abs(dE) > 1e-12, Y / dE, 0)
                cmp(f"explicit ({i}, {j})", V, want, 1 + np.abs(want).max())
            if solve(zero, (i, nb, 1)) is not zero: bad = bad or {"what": "zero right-hand side is not answered with zero"}
        if herm and c % 4 == 0:
            # the KPM solver object: accuracy within the requested one, and no memory — the answer to a request does not depend on the requests made before
            # (one object is deterministic to the last bit; only a fresh object draws a new random start vector for the spectral bounds)
            acc = 1e-6; dist["kpm solver object"] = dist.get("kpm solver object", 0) + 1
            try:
                ks = solve_sylvester_KPM(h0, [R[:, p] for p in parts], {"atol": acc})
                p0 = parts[0]; Ei = ev[p0].real; si = len(p0)
                Ya = rng.normal(size=(si, N)); Yb = 3.0 * rng.normal(size=(si, N))
                Va1 = np.array(ks(Ya, (0, nb, 1))); _ = ks(Yb, (0, nb, 2))
                if nb > 1: _ = ks(rng.normal(size=(len(parts[1]), N)), (1, nb, 1))
                Va2 = np.array(ks(Ya, (0, nb, 1)))
                evals += 1
                if not np.array_equal(Va1, Va2) and bad is None:
                    bad = {"what": "KPM solver object: the same request answered differently after other requests", "relative_error": float(np.abs(Va1 - Va2).max())}
                want = ((Ya @ RB) / (Ei[:, None] - eB.real[None, :])) @ LB.conj().T
                cmp("KPM solver object: closed form (within 300 x the requested accuracy)", Va1 * (1e-8 / (300 * acc)), want * (1e-8 / (300 * acc)), (1 + np.abs(want).max()))
            except Exception as e:
                bad = bad or {"what": "KPM solver object raises: " + type(e).__name__ + ": " + str(e)[:120]}
        distinct += 1
        if bad: failures.append(dict(desc, kind="solver-differs-from-closed-form", **bad))
    json.dump({"evaluations": evals, "cases": ncases, "distinct_nontrivial": distinct, "failures": failures, "distribution": dist, "samples": samples,
               "worst_abs_error": worst}, open(out, "w"), default=str)

if __name__ == "__main__":
    main(int(sys.argv[1]), int(sys.argv[2]), sys.argv[3], sys.argv[4])
