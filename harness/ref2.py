import itertools, numpy as np
def cauchy(lst,n):
    def rec(lst,n):
        if len(lst)==1: return lst[0].get(n,0)
        tot=0
        for a in itertools.product(*[range(k+1) for k in n]):
            b=tuple(i-j for i,j in zip(n,a)); x=lst[0].get(a,None)
            if x is None: continue
            y=rec(lst[1:],b)
            if isinstance(y,int) and y==0: continue
            tot=tot+x@y
        return tot
    return rec(lst,n)
def reference(H, elim, N):
    k=len(N); z=(0,)*k; E=np.diag(H[z]); d=len(E); dE=E.reshape(-1,1)-E
    U={z:np.eye(d)}; Ui={z:np.eye(d)}; Ht={z:H[z]*1.0}; keep=~elim
    for n in sorted(itertools.product(*[range(m+1) for m in N]), key=lambda t:(sum(t),t)):
        if n==z: continue
        Ut=dict(U); Ut[n]=np.zeros((d,d)); Uit=dict(Ui); Uit[n]=np.zeros((d,d))
        G=cauchy([Uit,Ut],n); S=-G*keep/2
        Ut[n]=S; Uit[n]=-S-G
        K=cauchy([Uit,H,Ut],n)
        R=np.where(elim,-K/np.where(elim,dE,1),0)
        U[n]=S+R; Ui[n]=-(S+R)-G; Ht[n]=(K+H[z]@R-R@H[z])*keep
    return Ht,U,Ui
