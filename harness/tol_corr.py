"""C01 / C02 / C04 on the real code in the regime the exact model does not reach: levels that are equal only *within the tolerance* `atol`.

The Lean model works in exact arithmetic, where two unperturbed energies are equal or not; the code decides it with `atol`.  Here a Hermitian
numeric problem has, inside a fully diagonalised block (or the single block), groups of levels that are close on the scale of a coarse `atol`
(1e-3, 2^-10, 1e-6 — the documented way of treating quasi-degenerate levels as degenerate) or of the default one:
  * clusters: all members pairwise closer than atol;
  * chains: neighbours closer than atol, the ends farther apart (equal only through their neighbours);
  * pairs a fraction of atol apart sitting on either side of a multiple of atol; pairs exactly atol apart (equal: the solver divides only above atol);
all other levels are far apart (gaps >= 0.3).  Kept = same block and (block not fully diagonalised, or levels connected by steps below atol).
Oracles, in floating point on dense matrices, orders 0..3, every element:
  C01  sum U†_a H_b U_c = H_tilde, and H_tilde vanishes on every element that is not kept;
  C02  U†U = UU† = 1 as Cauchy products; the third series is the adjoint of U; H_tilde is Hermitian;
  C04  tr(H_tilde^k) = tr(H^k) order by order, k = 1..d.
Tolerance 1e-9 relative to the size of the terms (rounding is 1e-15; nothing is divided by less than 0.3)."""
import os, sys; sys.path.insert(0, os.path.dirname(os.path.abspath(__file__)))
from common import case_rnd, skip
import json, warnings, itertools
import numpy as np
from scipy import sparse
warnings.simplefilter("ignore")
from pymablock import block_diagonalize
from pymablock.series import zero, one

def dense(b, shape):
    if b is zero: return np.zeros(shape, dtype=complex)
    if b is one: return np.eye(shape[0], dtype=complex)
    if hasattr(b, "toarray"): b = b.toarray()
    return np.asarray(b, dtype=complex).reshape(shape)

def gen(rnd):
    # (selection given by the caller as masks: a chain's ends are then eliminated, dividing by little more than atol — a tolerance of 0.1 keeps that benign)
    as_masks = rnd.random() < 0.25
    atol = rnd.choice([1e-3, 2.0 ** -10, 1e-6, 1e-12]) if not as_masks else 0.1
    N = rnd.choice([1, 1, 2, 2, 3]); k = rnd.choice([1, 1, 2, 3])      # (three parameters: orders mixed in the second and third one)
    sizes = []; levels = []; groups = []; base = 0.0
    for b in range(N):
        lv = []; ngroups = rnd.randint(1, 2) if b == 0 else rnd.choice([0, 1])
        for _ in range(ngroups):
            kind = rnd.choice(["cluster", "chain", "straddle"] + (["boundary"] if atol == 2.0 ** -10 else [])); base += rnd.uniform(0.4, 2.0)
            if kind == "boundary": base = round(base * 64) / 64      # (binary fractions: the difference of the two levels is exactly atol)
            if kind == "cluster": m = rnd.randint(2, 3); offs = sorted(rnd.uniform(0, 0.9) for _ in range(m)); offs = [o - offs[0] for o in offs]
            elif kind == "boundary": m = 2; offs = [0.0, 1.0]
            elif kind == "chain": m = rnd.randint(3, 4); offs = [0.0]; [offs.append(offs[-1] + rnd.uniform(0.55, 0.95)) for _ in range(m - 1)]
            else:
                m = 2; q = rnd.randint(1, 2000); base = q * 0.5 * atol * rnd.choice([1, 2]) if atol > 1e-9 else float(rnd.randint(1, 9)) / 4      # the middle of a grid cell, or its edge
                offs = [0.3, 0.8]
                base = base + b * 7.0
            lv += [base + o * atol for o in offs]; groups.append((b, kind, m))
        for _ in range(rnd.randint(0, 2) if lv else rnd.randint(1, 3)):
            base += rnd.uniform(0.4, 2.0); lv.append(base)
        rnd.shuffle(lv); sizes.append(len(lv)); levels += lv; base += 3.0
    # every level outside the groups must stay far from everything else
    d = len(levels)
    fd = tuple(sorted(set(b for b, _, _ in groups) | set(b for b in range(N) if rnd.random() < 0.3))) if N > 1 else rnd.choice([(0,), None])
    carrier = rnd.choice(["dense", "sparse"])
    if as_masks and fd is None: fd = (0,)
    return dict(as_masks=as_masks, atol=atol, N=N, k=k, sizes=sizes, levels=levels, groups=groups, fd=fd, carrier=carrier, cplx=rnd.random() < 0.5, np_seed=rnd.randrange(2**31))

def main(seed, ncases, driver, out, prop=None):
    """`prop`: report only the identities of that property (C01, C02 or C04); all of them when it is not given"""
    failures = []; dist = {}; samples = []; evals = 0; distinct = 0; worst = 0.0
    for c in range(ncases):
        if skip(c): continue
        rnd = case_rnd(seed, c); P = gen(rnd); d = len(P["levels"]); N = P["N"]; k = P["k"]; sizes = P["sizes"]; atol = P["atol"]
        E = np.array(P["levels"]); blocks = np.repeat(np.arange(N), sizes)
        gaps_ok = all((abs(E[a] - E[b]) < 4 * atol and blocks[a] == blocks[b]) or abs(E[a] - E[b]) > 0.25 for a in range(d) for b in range(a))      # (levels of different blocks are always far apart)
        desc = {"case": c, "atol": atol, "sizes": sizes, "levels": [float(x) for x in E], "groups": [list(g) for g in P["groups"]], "fd": (list(P["fd"]) if P["fd"] is not None else None),
                "carrier": P["carrier"], "parameters": k}
        if not gaps_ok: dist["skipped: a level too close to a group"] = dist.get("skipped: a level too close to a group", 0) + 1; continue
        for g in P["groups"]: dist[f"{g[1]} atol={atol:g}"] = dist.get(f"{g[1]} atol={atol:g}", 0) + 1
        if len(samples) < 3: samples.append(desc)
        rng = np.random.default_rng(P["np_seed"])
        def herm():
            m = rng.normal(size=(d, d)) + (1j * rng.normal(size=(d, d)) if P["cplx"] else 0); return (m + m.conj().T) / 2
        terms = {(0,) * k: np.diag(E).astype(complex if P["cplx"] else float)}
        for n in itertools.product(range(3), repeat=k):
            if sum(n) == 1 or (sum(n) == 2 and rnd.random() < 0.3): terms[n] = herm()
        given = {n: m.copy() for n, m in terms.items()}
        # `atol` is also the documented threshold below which a whole block of a term counts as exactly zero: the Hamiltonian the identities speak about is the
        # one with such blocks removed (with atol = 0.1 a 1 x 1 block of a random perturbation is below it every twelfth time)
        off_ = np.concatenate([[0], np.cumsum(sizes)])
        for n, m in terms.items():
            for i in range(N):
                for j in range(N):
                    blk_ = m[off_[i]:off_[i + 1], off_[j]:off_[j + 1]]
                    if blk_.size and 0 < np.abs(blk_).max() <= atol: blk_[...] = 0; dist["a block of a term below atol (counts as zero)"] = dist.get("a block of a term below atol (counts as zero)", 0) + 1
        conv = sparse.csr_array if P["carrier"] == "sparse" else (lambda x: x)
        kw = {"atol": atol} if atol != 1e-12 or rnd.random() < 0.5 else {}
        if N > 1: kw["subspace_indices"] = blocks
        if P["fd"] is not None: kw["fully_diagonalize"] = P["fd"]
        fdset = set(P["fd"]) if P["fd"] is not None else {0}      # (a single block is fully diagonalised by default)
        # kept: the same block, and — when the block is fully diagonalised — levels connected by steps below atol
        close = (np.abs(E.reshape(-1, 1) - E) <= atol) & (blocks.reshape(-1, 1) == blocks)
        _, lab = sparse.csgraph.connected_components(close, directed=False)
        kept = np.array([[blocks[a] == blocks[b] and (blocks[a] not in fdset or lab[a] == lab[b]) for b in range(d)] for a in range(d)])
        if P["as_masks"]:
            off = np.concatenate([[0], np.cumsum(sizes)])
            kw["fully_diagonalize"] = {b: ~close[off[b]:off[b + 1], off[b]:off[b + 1]] for b in P["fd"]}
            kept = np.array([[blocks[a] == blocks[b] and (blocks[a] not in fdset or close[a, b]) for b in range(d)] for a in range(d)])
            dist["selection given as masks"] = dist.get("selection given as masks", 0) + 1
        maxo = 3 if k == 1 else 2
        orders = [n for n in itertools.product(range(maxo + 1), repeat=k) if sum(n) <= maxo]
        try:
            Ht, U, Ui = block_diagonalize({n: conv(m) for n, m in given.items()}, **kw)
            def asm(S, n): return np.block([[dense(S[(i, j) + n], (sizes[i], sizes[j])) for j in range(N)] for i in range(N)])
            H_ = {n: asm(Ht, n) for n in orders}; U_ = {n: asm(U, n) for n in orders}; V_ = {n: asm(Ui, n) for n in orders}
        except Exception as e:
            failures.append(dict(desc, kind="implementation-raises", error=type(e).__name__ + ": " + str(e)[:160])); continue
        distinct += 1; bad = None; only = prop
        def sub(n, m): return tuple(a - b for a, b in zip(n, m))
        def le(m, n): return all(a <= b for a, b in zip(m, n))
        def chk(prop, what, n, got, want):
            nonlocal bad, evals, worst
            err = float(np.abs(got - want).max()); sc = 1 + float(np.abs(want).max()) + max(float(np.abs(U_[m]).max()) for m in orders if le(m, n)) ** 2; evals += 1; worst = max(worst, err / sc)
            if not err <= 1e-9 * sc and (only is None or prop == only): bad = bad or dict(property=prop, identity=what, order=list(n), abs_err=err)
        for n in orders:
            acc = np.zeros((d, d), dtype=complex); uni = np.zeros((d, d), dtype=complex); uni2 = np.zeros((d, d), dtype=complex)
            for a in orders:
                if not le(a, n): continue
                uni += V_[a] @ U_[sub(n, a)]; uni2 += U_[a] @ V_[sub(n, a)]
                for b in terms:
                    if le(b, sub(n, a)): acc += V_[a] @ terms[b] @ U_[sub(sub(n, a), b)]
            chk("C01", "U†HU = H_tilde", n, acc, H_[n])
            chk("C01", "H_tilde vanishes on the elements to eliminate", n, np.where(kept, 0, H_[n]), np.zeros((d, d)))
            chk("C02", "U†U = 1", n, uni, np.eye(d) if not any(n) else np.zeros((d, d)))
            chk("C02", "UU† = 1", n, uni2, np.eye(d) if not any(n) else np.zeros((d, d)))
            chk("C02", "third series = adjoint of U", n, V_[n], U_[n].conj().T)
            chk("C02", "H_tilde Hermitian", n, H_[n], H_[n].conj().T)
        # C04: power traces, truncated series arithmetic
        def smul(A, B): return {n: sum((A[a] @ B[sub(n, a)] for a in orders if le(a, n) and a in A and sub(n, a) in B), np.zeros((d, d), dtype=complex)) for n in orders}
        SH = {n: terms[n] for n in orders if n in terms}; PH, PT = dict(SH), dict(H_)
        for kp in range(1, d + 1):
            for n in orders:
                th = np.trace(PH[n]) if n in PH else 0.0; tt = np.trace(PT[n]); evals += 1
                sc = 1 + abs(th) + max(float(np.abs(PH[m]).max()) for m in PH) * d
                if not abs(th - tt) <= 1e-9 * sc and only in (None, "C04"): bad = bad or dict(property="C04", identity=f"tr(H_tilde^{kp}) = tr(H^{kp})", order=list(n), abs_err=float(abs(th - tt)))
            if kp < d: PH, PT = smul(PH, SH), smul(PT, H_)
        if bad: failures.append(dict(desc, kind="property-fails-on-implementation", **bad))
    json.dump({"evaluations": evals, "cases": ncases, "distinct_nontrivial": distinct, "failures": failures, "distribution": dist, "samples": samples,
               "worst_abs_error": worst}, open(out, "w"), default=str)

if __name__ == "__main__":
    main(int(sys.argv[1]), int(sys.argv[2]), sys.argv[3], sys.argv[4], *sys.argv[5:6])
