"""C16 (diagonal solver) on the real code: for dense, sparse and symbolic right-hand sides the returned V satisfies
E_a V_ab - V_ab E_b = Y_ab wherever |E_a - E_b| > atol and V_ab = 0 elsewhere; all entries finite."""
import os, sys; sys.path.insert(0, os.path.dirname(os.path.abspath(__file__)))
from common import case_rnd, skip
import sys, json, random, warnings
from fractions import Fraction
import numpy as np, sympy
from scipy import sparse
warnings.simplefilter("ignore")
from pymablock.block_diagonalization import solve_sylvester_diagonal

def main(seed, ncases, driver, out):
    rnd = random.Random(seed); failures = []; dist = {}; samples = []; evals = 0; distinct = 0
    # exhaustive stratum first: every carrier x every orientation of a pair (distinct energies | identically zero block)
    enum = [([2, 2], [[1, 2], None], (i, j), car) for car in ("dense", "sparse", "sympy") for (i, j) in ((0, 1), (1, 0), (0, 0), (1, 1))] + \
           [([2, 3], [[1, 1], [11, 12, 12]], (i, j), car) for car in ("dense", "sparse", "sympy") for (i, j) in ((0, 1), (1, 0), (0, 0), (1, 1))]
    for c in range(len(enum) + ncases):
        if skip(c): continue
        rnd = case_rnd(seed, c)
        if c < len(enum):
            sizes, eigs, (i, j), forced = enum[c]; nb = len(sizes)
        else:
            forced = None
            nb = rnd.randint(1, 3); sizes = [rnd.randint(1, 3) for _ in range(nb)]
            zero_block = rnd.random() < 0.3
            eigs = []
            for b, s in enumerate(sizes):
                if zero_block and b == nb - 1: eigs.append(None); continue
                base = 10 * b; eigs.append([base + rnd.choice([0, 0, 1, 2]) for _ in range(s)])   # degenerate levels inside a block
            i = rnd.randrange(nb); j = rnd.randrange(nb)
        Ea = eigs[i] if eigs[i] is not None else [0] * sizes[i]; Eb = eigs[j] if eigs[j] is not None else [0] * sizes[j]
        if i != j and set(Ea) & set(Eb): continue
        Y = [[rnd.choice([0, 1, -2, 3]) for _ in range(sizes[j])] for _ in range(sizes[i])]
        carrier = forced or rnd.choice(["dense", "sparse", "sympy"])
        key = f"{carrier} zero_block={eigs[i] is None or eigs[j] is None} diagonal_block={i == j}"; dist[key] = dist.get(key, 0) + 1
        desc = {"sizes": sizes, "eigs": eigs, "index": [i, j], "Y": Y, "carrier": carrier}
        if len(samples) < 3: samples.append(desc)
        try:
            if carrier == "sympy":
                ev = tuple(np.array(sympy.S.Zero, dtype=object) if e is None else np.array([sympy.Integer(x) for x in e], dtype=object) for e in eigs)
                V = solve_sylvester_diagonal(ev)(sympy.Matrix(Y), (i, j)); Vd = [[Fraction(int(V[a, b].p), int(V[a, b].q)) for b in range(sizes[j])] for a in range(sizes[i])]
            else:
                ev = tuple(np.array(0) if e is None else np.array(e, dtype=float) for e in eigs)
                Yn = np.array(Y, dtype=float).reshape(sizes[i], sizes[j])
                # a sparse right-hand side in whatever layout products and slices of sparse blocks leave it: compressed rows or columns, coordinates, legacy matrices
                fmt = [sparse.csr_array, sparse.csc_array, sparse.coo_array, sparse.csc_matrix, sparse.csr_matrix][c % 5]
                if carrier == "sparse": dist["sparse layout " + fmt.__name__] = dist.get("sparse layout " + fmt.__name__, 0) + 1
                V = solve_sylvester_diagonal(ev)(fmt(Yn) if carrier == "sparse" else Yn, (i, j))
                V = V.toarray() if sparse.issparse(V) else np.asarray(V)
                if not np.all(np.isfinite(V)):
                    failures.append(dict(desc, kind="non-finite-output")); continue
                Vd = [[Fraction(float(V[a, b])).limit_denominator(10**6) for b in range(sizes[j])] for a in range(sizes[i])]
        except Exception as e:
            failures.append(dict(desc, kind="implementation-raises", error=type(e).__name__ + ": " + str(e)[:120])); continue
        bad = None
        for a in range(sizes[i]):
            for b in range(sizes[j]):
                evals += 1; de = Ea[a] - Eb[b]
                want = Fraction(Y[a][b], de) if de != 0 else Fraction(0)
                if abs(Vd[a][b] - want) > Fraction(1, 10**5): bad = bad or {"entry": [a, b], "got": str(Vd[a][b]), "want": str(want)}
        distinct += 1
        if bad: failures.append(dict(desc, kind="wrong-solution", **bad))
    json.dump({"evaluations": evals, "cases": ncases, "distinct_nontrivial": distinct, "failures": failures, "distribution": dist, "samples": samples}, open(out, "w"))

if __name__ == "__main__":
    main(int(sys.argv[1]), int(sys.argv[2]), sys.argv[3], sys.argv[4])
