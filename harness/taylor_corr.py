"""C14 / C13 (Taylor expansion of a symbolic Hamiltonian): the real `_sympy_to_BlockSeries` against the Lean model `Taylor.term`
(driver command `taylor`; theorem `Taylor.term_eq_coeff`: the term of multi-order n is the coefficient of the monomial n).

A case: a random matrix (1x1 ... 2x2) whose entries are polynomials with rational coefficients in 1-3 symbols (mixed monomials of total
degree <= 4 always present when there are two or more symbols), the symbols given in a random order.  For every multi-order up to
(2,...) the element of the series the code builds is compared, entry by entry, with the model's term times the monomial — and, independently of
the model, with the coefficient SymPy's own `Poly` reports (the oracle of the property)."""
import os, sys; sys.path.insert(0, os.path.dirname(os.path.abspath(__file__)))
from common import case_rnd, skip
import json, subprocess, itertools, warnings
from fractions import Fraction
import sympy
warnings.simplefilter("ignore")
from pymablock.block_diagonalization import _sympy_to_BlockSeries
from pymablock.series import zero

def main(seed, ncases, driver, out):
    proc = subprocess.Popen([driver], stdin=subprocess.PIPE, stdout=subprocess.PIPE, text=True)
    failures = []; dist = {}; samples = []; evals = 0; distinct = 0
    for c in range(ncases):
        if skip(c): continue
        rnd = case_rnd(seed, c); k = rnd.choice([1, 2, 2, 3]); dim = rnd.choice([1, 2])
        names = rnd.sample(["x", "y", "z", "x10", "x2", "b"], k); syms = [sympy.Symbol(n, real=True) for n in names]
        exps = [e for e in itertools.product(range(4), repeat=k) if sum(e) <= 4]
        entries = {}
        for a in range(dim):
            for b in range(dim):
                chosen = rnd.sample(exps, min(len(exps), rnd.randint(2, 6)))
                if k >= 2: chosen.append(tuple(1 for _ in range(k))); chosen.append(tuple(2 if i == 0 else 1 for i in range(k)))
                entries[(a, b)] = {e: Fraction(rnd.randint(-5, 5), rnd.choice([1, 2, 3])) for e in set(chosen)}
        for i in range(k):     # every symbol occurs (a symbol the matrix does not depend on is rejected as "not in hamiltonian", by design)
            if not any(q != 0 and e[i] > 0 for v in entries.values() for e, q in v.items()):
                e1 = tuple(1 if j == i else 0 for j in range(k)); entries[(0, 0)][e1] = Fraction(rnd.randint(1, 5), rnd.choice([1, 2, 3]))
        M = sympy.Matrix(dim, dim, lambda a, b: sum((sympy.Rational(q.numerator, q.denominator) * sympy.Mul(*[s ** p for s, p in zip(syms, e)])
                                                       for e, q in entries[(a, b)].items()), sympy.S.Zero))
        desc = {"case": c, "symbols": names, "dim": dim, "entries": {f"{a},{b}": {",".join(map(str, e)): str(q) for e, q in v.items()} for (a, b), v in entries.items()}}
        key = f"k={k} dim={dim}"; dist[key] = dist.get(key, 0) + 1
        if len(samples) < 2: samples.append(desc)
        idxs = [n for n in itertools.product(range(3), repeat=k)]
        rnd.shuffle(idxs)                      # any request order: a coefficient does not depend on which lower derivatives happen to be cached
        try:
            S = _sympy_to_BlockSeries(M, syms, check_hermitian=False)
            got = {n: S[n] for n in idxs}
        except Exception as e:
            failures.append(dict(desc, kind="implementation-raises", error=type(e).__name__ + ": " + str(e)[:150])); continue
        bad = None
        for (a, b), mon in entries.items():
            req = {"cmd": "taylor", "monomials": [{"exp": list(e), "coef": f"{q.numerator}/{q.denominator}"} for e, q in mon.items()], "indices": [list(n) for n in idxs]}
            proc.stdin.write(json.dumps(req) + "\n"); proc.stdin.flush(); line = proc.stdout.readline().strip()
            model = [Fraction(t) for t in line.split("|")]
            for n, mv in zip(idxs, model):
                evals += 1
                want = mon.get(n, Fraction(0))
                g = got[n]; ge = sympy.S.Zero if g is zero else g[a, b]
                gv = sympy.nsimplify(sympy.expand(ge).subs({s: 1 for s in syms}), rational=True)
                gq = Fraction(int(gv.p), int(gv.q))
                # the element must be coefficient * monomial: check the monomial too
                if g is not zero and sympy.expand(ge - sympy.Rational(gq.numerator, gq.denominator) * sympy.Mul(*[s ** p for s, p in zip(syms, n)])) != 0:
                    bad = bad or {"kind": "term-is-not-a-multiple-of-its-monomial", "entry": [a, b], "order": list(n), "got": str(ge)}
                if mv != want: bad = bad or {"kind": "model-differs-from-polynomial-coefficient", "entry": [a, b], "order": list(n), "model": str(mv), "want": str(want)}
                elif gq != mv: bad = bad or {"kind": "taylor-term-differs-from-coefficient", "entry": [a, b], "order": list(n), "impl": str(gq), "model": str(mv)}
        distinct += 1
        if bad: failures.append(dict(desc, **bad))
    proc.stdin.close()
    json.dump({"evaluations": evals, "cases": ncases, "distinct_nontrivial": distinct, "failures": failures, "distribution": dist, "samples": samples}, open(out, "w"))

if __name__ == "__main__":
    main(int(sys.argv[1]), int(sys.argv[2]), sys.argv[3], sys.argv[4])
