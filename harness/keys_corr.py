"""C13 / C14 (key normalisation): the real `_symbolic_keys_to_tuples` and `_list_to_dict` against the Lean model `Formats`
(driver command `keys`; theorems: the symbols come out strictly sorted by name as strings and are exactly those that occur, so the result
is independent of the order of the dict entries and of the factors of a key).  Names are chosen to stress the string sort (x10 < x2, upper
before lower case, non-ASCII letters); every case is also run with its entries shuffled: same symbols, same tuples."""
import os, sys; sys.path.insert(0, os.path.dirname(os.path.abspath(__file__)))
from common import case_rnd, skip
import json, subprocess, warnings
import sympy
warnings.simplefilter("ignore")
from pymablock.block_diagonalization import _symbolic_keys_to_tuples, _list_to_dict, _subspaces_from_indices
import numpy as np

NAMES = ["x", "y", "x10", "x2", "x1", "B", "b", "a", "A", "alpha", "α", "β", "k_x", "k_y", "Z", "zz", "_t", "t"]

def main(seed, ncases, driver, out):
    proc = subprocess.Popen([driver], stdin=subprocess.PIPE, stdout=subprocess.PIPE, text=True)
    def ask(req):
        proc.stdin.write(json.dumps(req) + "\n"); proc.stdin.flush(); return proc.stdout.readline().rstrip("\n")
    failures = []; dist = {}; samples = []; evals = 0; distinct = set()
    for c in range(ncases):
        if skip(c): continue
        rnd = case_rnd(seed, c)
        if c % 5 == 3:
            # `_subspaces_from_indices`: the columns of each block's eigenvector matrix = the states with that label, in order of appearance
            nst = rnd.choice([1, 2, 5, 9, 17, 40]); nbl = rnd.randint(1, 4); labels = [rnd.randrange(nbl) for _ in range(nst)]
            if rnd.random() < 0.3: labels = sorted(labels)
            symbolic = rnd.random() < 0.3; dist["subspace_indices"] = dist.get("subspace_indices", 0) + 1; evals += 1
            lab_in = labels if rnd.random() < 0.5 else (tuple(labels) if rnd.random() < 0.5 else np.array(labels))
            vecs = _subspaces_from_indices(lab_in, symbolic=symbolic)
            got = []
            for v in vecs:
                m = v if isinstance(v, np.ndarray) else v.toarray()
                ok01 = m.shape[0] == nst and np.all((m == 0) | (m == 1)) and np.all(m.sum(axis=0) == 1)
                got.append(",".join(str(int(np.argmax(m[:, j]))) for j in range(m.shape[1])) if ok01 else "not-a-selection")
            want = ask({"cmd": "keys", "labels": labels})
            if ";".join(got) != want: failures.append({"case": c, "kind": "subspaces-differ", "labels": labels, "symbolic": symbolic, "impl": ";".join(got), "model": want})
            continue
        if c % 5 == 4:
            n = rnd.randint(1, 6); got = _list_to_dict(list(range(n))); evals += 1; dist["list"] = dist.get("list", 0) + 1
            want = ask({"cmd": "keys", "list_len": n})
            g = ";".join(",".join(str(int(x)) for x in k) for k in got)          # dict order = insertion order
            vals_ok = [got[k] for k in got] == list(range(n))
            if g != want or not vals_ok: failures.append({"case": c, "kind": "list-keys-differ", "n": n, "impl": g, "model": want})
            continue
        k = rnd.randint(1, 4); names = rnd.sample(NAMES, k); syms = {n_: sympy.Symbol(n_, real=True) for n_ in names}
        keys = [[]]          # the key `1`
        for _ in range(rnd.randint(1, 5)):
            fac = [(n_, rnd.randint(1, 3)) for n_ in rnd.sample(names, rnd.randint(1, k))]
            if sorted(fac) not in [sorted(x) for x in keys]: keys.append(fac)
        if not all(any(n_ == f[0] for key in keys for f in key) for n_ in names):
            keys.append([(n_, 1) for n_ in names])
        def run(order):
            ham = {}
            for idx in order:
                key = keys[idx]; fs = list(key); rnd.shuffle(fs)
                ham[sympy.Mul(*[syms[n_] ** e for n_, e in fs]) if fs else sympy.Integer(1)] = idx
            new, symbols = _symbolic_keys_to_tuples(ham)
            inv = {v: kk for kk, v in new.items()}
            return [str(s_) for s_ in symbols], [tuple(int(x) for x in inv[i]) for i in range(len(keys))]
        order = list(range(len(keys))); desc = {"case": c, "names": names, "keys": keys}
        dist[f"symbols={k}"] = dist.get(f"symbols={k}", 0) + 1; distinct.add(json.dumps(desc["keys"], sort_keys=True))
        if len(samples) < 3: samples.append(desc)
        try:
            s1, t1 = run(order); rnd.shuffle(order); s2, t2 = run(order)
        except Exception as e:
            failures.append(dict(desc, kind="implementation-raises", error=type(e).__name__ + ": " + str(e)[:150])); continue
        evals += 2
        line = ask({"cmd": "keys", "keys": [{"factors": [{"s": n_, "e": e} for n_, e in key]} for key in keys]})
        msyms, mt = line.split("|"); msyms = msyms.split(",") if msyms else []
        mtuples = [tuple(int(x) for x in t.split(",")) if t else () for t in mt.split(";")]
        if (s1, t1) != (s2, t2): failures.append(dict(desc, kind="result-depends-on-entry-order", first=[s1, t1], second=[s2, t2]))
        elif s1 != msyms or t1 != mtuples: failures.append(dict(desc, kind="differs-from-model", impl=[s1, t1], model=[msyms, mtuples]))
    proc.stdin.close()
    json.dump({"evaluations": evals, "cases": ncases, "distinct_nontrivial": len(distinct), "failures": failures, "distribution": dist, "samples": samples}, open(out, "w"), ensure_ascii=False)

if __name__ == "__main__":
    main(int(sys.argv[1]), int(sys.argv[2]), sys.argv[3], sys.argv[4])
