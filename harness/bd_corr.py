"""First tie: real block_diagonalize (exact, sympy) vs the Lean driver running the translated algorithm."""
import os, sys; sys.path.insert(0, os.path.dirname(os.path.abspath(__file__)))
from common import case_rnd, skip
import sys, json, random, subprocess, itertools, time, warnings
from fractions import Fraction
import numpy as np, sympy
warnings.simplefilter("ignore")
from pymablock import block_diagonalize
from pymablock.series import zero, one

ZERO_BLOCKS = False
DRIVER = None  # set by main()

def fr(x): return f"{x.numerator}/{x.denominator}"
def gstr(z): return f"{fr(z[0])},{fr(z[1])}"

def cmul_m(A, Bm):
    d = len(A); Z = (Fraction(0), Fraction(0)); out = [[Z] * d for _ in range(d)]
    for a in range(d):
        for c in range(d):
            x = A[a][c]
            if x == Z: continue
            for b in range(d):
                y = Bm[c][b]
                if y == Z: continue
                o = out[a][b]; out[a][b] = (o[0] + x[0] * y[0] - x[1] * y[1], o[1] + x[0] * y[1] + x[1] * y[0])
    return out

# designed cases, run first under every seed (shapes fixed, values random): configurations a random draw of 40 cases reaches too rarely
DESIGNED = [
    {"hermitian": True, "sizes": [1, 3], "masks": {1: [(0, 2)]}, "order": [1]},                       # a mask whose position in the dict is not its block
    {"hermitian": True, "sizes": [2, 1, 3], "masks": {2: [(0, 2)], 0: [(0, 1)]}, "order": [2, 0]},    # keys 0 and 2, inserted in reverse
    {"hermitian": False, "sizes": [1, 3], "masks": {1: [(0, 2), (2, 0), (1, 0)]}, "order": [1]},
    {"hermitian": True, "sizes": [3, 2], "masks": {0: [(0, 1)], 1: []}, "order": [1, 0]},             # an empty mask next to a partial one
    # dense blocks of the caller's (nested lists; a BlockSeries of blocks) whose entries off the diagonal of H_0 are rounding noise: they come back as they were
    {"hermitian": True, "sizes": [2, 3], "E": [1, 4, 8, 10, 13],
     "variant": {"carrier": "dense", "designation": "blocked", "container": "dict", "int_h0": False, "h0_noise": 424242, "scale_exp": 0}},
    {"hermitian": True, "sizes": [2, 2], "E": [2, 5, 9, 12], "fd_tuple": [1],
     "variant": {"carrier": "dense", "designation": "blockseries-blocked", "container": "dict", "int_h0": False, "h0_noise": 434343, "scale_exp": 0}},
    # nested block lists in very small units (2^-70, atol in the same units)
    {"hermitian": True, "sizes": [2, 2], "E": [1, 4, 8, 11],
     "variant": {"carrier": "dense", "designation": "blocked", "container": "dict", "int_h0": False, "scale_exp": -70}},
    # a series of blocks of the caller's whose carriers differ between the orders: arrays up to first order, legacy sparse matrices from second order on
    {"hermitian": True, "sizes": [2, 2], "E": [1, 3, 7, 10],
     "variant": {"carrier": "legacy-high-orders", "designation": "blockseries-blocked", "container": "dict", "int_h0": False, "scale_exp": 0}},
    # nested block lists of the caller's holding legacy sparse matrices: the lists and their entries come back as they were (identity, type, contents)
    {"hermitian": True, "sizes": [2, 3], "E": [2, 5, 9, 11, 14],
     "variant": {"carrier": "spmatrix", "designation": "blocked", "container": "dict", "int_h0": False, "scale_exp": 0}},
    {"hermitian": True, "sizes": [2, 2], "E": [0, 0, 2, 5], "fd_tuple": [0]},                        # an identically zero H_0 block, fully diagonalised
    {"hermitian": False, "sizes": [2, 1, 2], "E": [0, 0, 3, 7, 7], "fd_tuple": [0, 2]},              # a zero block and a degenerate one, both fully diagonalised
    {"hermitian": True, "sizes": [2, 2], "E": [1, 3, 0, 0], "variant": {"carrier": "dense", "designation": "indices", "container": "dict", "int_h0": False, "scale_exp": 0}},                                         # an identically zero H_0 block that is not the first one, equal block sizes
    {"hermitian": False, "sizes": [2, 2], "E": [2, 5, 0, 0], "fd_tuple": [0], "variant": {"carrier": "dense", "designation": "indices", "container": "dict", "int_h0": False, "scale_exp": 0}},                       # the same in the non-Hermitian algorithm, the other block fully diagonalised
    {"hermitian": True, "sizes": [2, 2, 2], "E": [1, 4, 0, 0, 9, 6], "fd_tuple": [0, 2], "variant": {"carrier": "dense", "designation": "indices", "container": "dict", "int_h0": False, "scale_exp": 0}},            # a zero block in the middle
    {"hermitian": True, "sizes": [2, 3], "E": [0, 2, 5, 9, 11], "integers": True,                    # integer data throughout (H_0 and every perturbation), all-sparse carriers
     "variant": {"carrier": "sparse", "designation": "indices", "container": "dict", "int_h0": True, "int_all": True, "scale_exp": 0}},
    {"hermitian": True, "sizes": [3, 2], "E": [1, 1, 4, 7, 7], "fd_tuple": [0, 1],                   # degenerate levels that are degenerate only up to rounding: a rotated dense H_0
     "variant": {"carrier": "dense", "designation": "rotated", "container": "dict", "int_h0": False, "level_rotation": True, "np_seed": 12345, "scale_exp": 0}},
    {"hermitian": True, "sizes": [3], "E": [1, 3, 6],                                                # a single block given without any designation, carriers differing from order to order
     "variant": {"carrier": "by-order", "designation": "none", "container": "dict", "int_h0": False, "scale_exp": 0}},
    {"hermitian": True, "sizes": [4], "E": [2, 2, 5, 5],                                              # the same for a single block (fully diagonalised by default)
     "variant": {"carrier": "dense", "designation": "rotated", "container": "dict", "int_h0": False, "level_rotation": True, "np_seed": 54321, "scale_exp": 0}},
    {"hermitian": True, "sizes": [3, 2], "E": [1, 1, 4, 8, 11], "fd_tuple": [0],                     # levels equal only within the tolerance (a fraction of atol apart), in a fully diagonalised block
     "variant": {"carrier": "dense", "designation": "indices", "container": "dict", "int_h0": False, "level_jitter": True, "scale_exp": 0}},
    {"hermitian": True, "sizes": [4], "E": [3, 3, 6, 6],                                              # the same for a single block, sparse
     "variant": {"carrier": "sparse", "designation": "none", "container": "dict", "int_h0": False, "level_jitter": True, "scale_exp": 0}},
    # a coarse tolerance (atol = 1/8, model and code alike) and levels equal within it only through their neighbours: 1, 1.09375, 1.1875 — kept together
    # (`_transitive_closure` / `Closure.closure`).  The exact SymPy run decides equality exactly, so only the floating-point run is compared with the model.
    {"hermitian": True, "sizes": [4], "E": ["1", "35/32", "38/32", "5"], "atol": "1/8",
     "variant": {"carrier": "dense", "designation": "none", "container": "dict", "int_h0": False, "scale_exp": 0}},
    {"hermitian": True, "sizes": [3, 2], "E": ["2", "67/32", "70/32", "9", "12"], "fd_tuple": [0], "atol": "1/8",
     "variant": {"carrier": "sparse", "designation": "indices", "container": "dict", "int_h0": False, "scale_exp": 0}},
    # two levels exactly atol apart: equal (`<=`), hence kept — the solver does not divide by a difference that is not above atol
    {"hermitian": True, "sizes": [3, 2], "E": ["1", "9/8", "4", "8", "11"], "fd_tuple": [0], "atol": "1/8",
     "variant": {"carrier": "dense", "designation": "indices", "container": "dict", "int_h0": False, "scale_exp": 0}},
]

def gen_problem(rnd, hermitian=True, force=None):
    N = rnd.choice([1, 2, 2, 3, 3, 4]); sizes = [rnd.choice([1, 1, 2, 2, 3]) for _ in range(N)]
    if force: sizes = list(force["sizes"]); N = len(sizes)
    if N >= 2 and rnd.random() < 0.3 and not force: sizes[rnd.randrange(1, N)] = 3          # a block other than the first one in which a partial mask is not closed
    while sum(sizes) > 6:
        cand = [i for i in range(N) if sizes[i] == 2] or [i for i in range(N) if sizes[i] == 3]
        sizes[rnd.choice(cand)] -= 1
    d = sum(sizes); blocks = sum([[b] * s for b, s in enumerate(sizes)], [])
    k = rnd.choice([1, 1, 2])
    E = []
    zb = rnd.random() < 0.2                                   # a block of H_0 may vanish identically
    offset = rnd.choice([0, 0, 0, 2 ** 17])                   # a large common offset: gaps far above atol but below 1e-5 of the level values
    for b, s in enumerate(sizes): E += [Fraction(offset + 5 * b + rnd.choice([0, 1, 2]) + (0 if zb else 1), 1) for _ in range(s)]
    if force:
        E = []
        for b, s_ in enumerate(sizes): E += [Fraction(offset + 5 * b + x + 1, 1) for x in rnd.sample(range(4), s_)]   # distinct inside a block
    if force and "E" in force: E = [Fraction(e) for e in force["E"]]
    if all(e == 0 for e in E): E[0] = Fraction(1)
    # non-Hermitian mode: the unperturbed energies may be complex
    cE = (not hermitian) and rnd.random() < 0.4
    E = [(e, Fraction(rnd.choice([0, 0, 1, -1, 2]), rnd.choice([1, 2])) if cE else Fraction(0)) for e in E]
    cplx = rnd.random() < 0.5
    def entry():
        if force and force.get("integers"): return (Fraction(rnd.randint(-3, 3)), Fraction(0))
        if rnd.random() < (0.3 if not force else 0.1): return (Fraction(0), Fraction(0))
        re = Fraction(rnd.randint(-3, 3), rnd.choice([1, 1, 2, 3]))
        im = Fraction(rnd.randint(-3, 3), rnd.choice([1, 2])) if cplx else Fraction(0)
        return (re, im)
    def mat():
        m = [[entry() for _ in range(d)] for _ in range(d)]
        if hermitian:
            for a in range(d):
                m[a][a] = (m[a][a][0], Fraction(0))
                for b in range(a + 1, d): m[b][a] = (m[a][b][0], -m[a][b][1])
        return m
    terms = {(0,) * k: [[E[a] if a == b else (Fraction(0), Fraction(0)) for b in range(d)] for a in range(d)]}
    for n in itertools.product(range(3), repeat=k):
        if 0 < sum(n) <= 2 and (rnd.random() < 0.7 or force or (k >= 2 and n == (1,) * k)): terms[n] = mat()      # with several parameters a mixed order is always there
    mode = rnd.choice(["none", "tuple", "dict"]) if not force else "designed"
    fd = {"kind": "none"}; fd_py = ()
    off = [0]
    for s in sizes: off.append(off[-1] + s)
    if mode == "tuple":
        bl = [b for b in range(N) if rnd.random() < 0.6]; fd = {"kind": "tuple", "blocks": bl}; fd_py = tuple(bl)
    elif mode == "designed" and "fd_tuple" in force:
        fd = {"kind": "tuple", "blocks": list(force["fd_tuple"])}; fd_py = tuple(force["fd_tuple"])
    elif mode == "designed" and "masks" not in force:
        pass                                                  # no fully_diagonalize
    elif mode == "designed":
        masks = []; fd_py = {}
        for b in force["order"]:
            sz = sizes[b]; m = [[0] * sz for _ in range(sz)]
            for (x, y) in force["masks"][b]:
                m[x][y] = 1
                if hermitian: m[y][x] = 1
            full = [0] * (d * d)
            for x in range(sz):
                for y in range(sz): full[(off[b] + x) * d + off[b] + y] = m[x][y]
            masks.append({"block": b, "mask": full}); fd_py[b] = np.array(m, dtype=bool)
        fd = {"kind": "dict", "masks": masks}
    elif mode == "dict":
        masks = []; fd_py = {}
        skip_first = N >= 2 and rnd.random() < 0.4               # keys that are not 0..m-1: a mask's position in the dictionary is not its block
        border = list(range(N)); rnd.shuffle(border)                 # and the insertion order is arbitrary
        for b in border:
            if rnd.random() < 0.6 and not (skip_first and b == 0):
                s = sizes[b]; m = [[0] * s for _ in range(s)]
                for x in range(s):
                    for y in range(x + 1, s):
                        if E[off[b] + x] != E[off[b] + y] and rnd.random() < 0.5:
                            m[x][y] = 1; m[y][x] = 1 if hermitian or rnd.random() < 0.5 else 0
                            if not hermitian and rnd.random() < 0.3: m[x][y] = 0
                full = [0] * (d * d)
                for x in range(s):
                    for y in range(s): full[(off[b] + x) * d + off[b] + y] = m[x][y]
                masks.append({"block": b, "mask": full}); fd_py[b] = np.array(m, dtype=bool)
        fd = {"kind": "dict", "masks": masks}
    lab = None
    if not hermitian and rnd.random() < 0.35:
        # a lab frame related to the canonical one by a unimodular S (product of shears): H_lab = S H S^-1, right vectors = columns of S,
        # left vectors = columns of S^-H; perturbations that are *Hermitian in the lab frame* are included
        one_ = (Fraction(1), Fraction(0)); Z = (Fraction(0), Fraction(0))
        eye = [[one_ if a == b else Z for b in range(d)] for a in range(d)]; S = [r[:] for r in eye]; Sinv = [r[:] for r in eye]
        for _ in range(rnd.randint(1, 3)):
            a, b = rnd.sample(range(d), 2) if d >= 2 else (0, 0)
            if a == b: break
            cc = (Fraction(rnd.choice([1, -1, 2])), Fraction(rnd.choice([0, 0, 1])) if cplx else Fraction(0))
            sh = [r[:] for r in eye]; sh[a][b] = cc; shi = [r[:] for r in eye]; shi[a][b] = (-cc[0], -cc[1])
            S = cmul_m(S, sh); Sinv = cmul_m(shi, Sinv)
        labt = {}
        for n in list(terms):
            if any(n) and rnd.random() < 0.5:
                hm = [[entry() for _ in range(d)] for _ in range(d)]
                for a in range(d):
                    hm[a][a] = (hm[a][a][0], Fraction(0))
                    for b in range(a + 1, d): hm[b][a] = (hm[a][b][0], -hm[a][b][1])
                labt[n] = hm; terms[n] = cmul_m(cmul_m(Sinv, hm), S)
            else:
                labt[n] = cmul_m(cmul_m(S, terms[n]), Sinv)
        lab = {"S": S, "Sinv": Sinv, "terms": labt}
    return dict(N=N, sizes=sizes, d=d, blocks=blocks, k=k, terms=terms, fd=fd, fd_py=fd_py, hermitian=hermitian, off=off, lab=lab)

def to_sympy(m):
    return sympy.Matrix([[sympy.Rational(z[0].numerator, z[0].denominator) + sympy.I * sympy.Rational(z[1].numerator, z[1].denominator) for z in row] for row in m])

def interleave(P, rnd):
    """a relabelling of the basis states that interleaves the blocks but keeps the order inside each block:
    returns (subspace_indices in the new labelling, perm) with perm[new position] = canonical state"""
    labels = list(P["blocks"]); rnd.shuffle(labels)
    members = {b: [a for a in range(P["d"]) if P["blocks"][a] == b] for b in range(P["N"])}
    seen = {b: 0 for b in range(P["N"])}; perm = []
    for b in labels: perm.append(members[b][seen[b]]); seen[b] += 1
    return labels, perm

def permuted(m, perm):
    return [[m[perm[a]][perm[b]] for b in range(len(perm))] for a in range(len(perm))]

def run_impl(P, requests, layout=None):
    idx, perm = layout if layout is not None else (P["blocks"], list(range(P["d"])))
    H = {n: to_sympy(permuted(m, perm)) for n, m in P["terms"].items()}
    syms = None
    if P.get("as_polynomial") and all(any(n[a] > 0 for n in H) for a in range(P["k"])):
        # the same series as ONE SymPy matrix, polynomial in the perturbation symbols: the code Taylor-expands it
        syms = list(sympy.symbols("t0:%d" % P["k"], real=True))
        Hp = sum((sympy.Mul(*[s_ ** e for s_, e in zip(syms, n)]) * m for n, m in H.items()), sympy.zeros(P["d"], P["d"]))
        if not set(syms) <= Hp.free_symbols: syms = None        # a term that vanishes identically took its symbol with it: keep the dict form
    if syms is not None:
        Ht, U, Ud = block_diagonalize(Hp, symbols=syms, subspace_indices=idx, fully_diagonalize=P["fd_py"], hermitian=P["hermitian"])
    else:
        Ht, U, Ud = block_diagonalize(H, subspace_indices=idx, fully_diagonalize=P["fd_py"], hermitian=P["hermitian"])
    S = {"H_tilde": Ht, "U": U, "U†": Ud}
    P["_series"] = S
    out = []
    for (name, i, j, n) in requests:
        try:
            v = S[name][(i, j) + tuple(n)]
        except Exception as e:
            out.append(("err", type(e).__name__, str(e))); continue
        if v is zero: out.append(("zero",)); continue
        d = P["d"]; off = P["off"]; sizes = P["sizes"]
        full = [[(Fraction(0), Fraction(0))] * d for _ in range(d)]
        if v is one:
            for a in range(sizes[i]): full[off[i] + a][off[i] + a] = (Fraction(1), Fraction(0))
            out.append(("one", full)); continue
        v = sympy.Matrix(v)
        if syms is not None: v = v.subs({s_: 1 for s_ in syms})          # every order carries its monomial in the symbols: take the coefficient
        for a in range(v.rows):
            for b in range(v.cols):
                z = sympy.expand(v[a, b]); re, im = z.as_real_imag()
                re, im = sympy.nsimplify(re, rational=True), sympy.nsimplify(im, rational=True)
                assert re.is_Rational and im.is_Rational, (z, re, im)
                full[off[i] + a][off[j] + b] = (Fraction(int(re.p), int(re.q)), Fraction(int(im.p), int(im.q)))
        out.append(("val", full))
    return out

def to_float(m):
    return np.array([[complex(float(z[0]), float(z[1])) for z in row] for row in m])

def level_groups(P):
    """groups of states inside a block with the same unperturbed energy"""
    d = P["d"]; k = P["k"]; E = [P["terms"][(0,) * k][a][a] for a in range(d)]; groups = {}
    for a in range(d): groups.setdefault((P["blocks"][a], E[a]), []).append(a)
    return [g for g in groups.values()]

def choose_variant(P, rnd):
    """one presentation of the problem to the floating-point code: carrier x dtype x container x designation of the blocks"""
    k = P["k"]
    v = {"carrier": rnd.choice(["dense", "sparse", "spmatrix", "mixed"]),
         "designation": rnd.choice(["indices", "indices", "vectors", "blocked", "rotated", "blockseries", "blockseries-blocked"]),
         "container": "dict", "int_h0": False}
    keys = list(P["terms"])
    if all(sum(n) <= 1 for n in keys) and rnd.random() < 0.5: v["container"] = "list"
    elif rnd.random() < 0.25 and all(any(n[a] > 0 for n in keys) for a in range(k)): v["container"] = "monomials"   # every symbol must occur in a key
    E = [P["terms"][(0,) * k][a][a] for a in range(P["d"])]
    if all(e[0].denominator == 1 and e[1] == 0 and abs(e[0]) < 2**40 for e in E) and rnd.random() < 0.35: v["int_h0"] = True
    if v["designation"] == "rotated" and max(abs(e[0]) for e in E) > 1000:
        v["designation"] = "vectors"        # rotating H_0 of size 1e5 leaves rounding residues above the absolute atol = 1e-12: not the code's fault
    if v["designation"] == "rotated":
        v["carrier"] = "dense"; v["int_h0"] = False
        v["level_rotation"] = P["fd"]["kind"] != "dict" and rnd.random() < 0.7
        v["np_seed"] = rnd.randrange(2**31)
    if P.get("lab") is not None and rnd.random() < 0.7:
        v["designation"] = "biorthogonal"; v["carrier"] = "dense"; v["int_h0"] = False
    if P["N"] == 1 and rnd.random() < 0.5:      # a single block needs no designation at all
        v["designation"] = "none"; v["carrier"] = rnd.choice(["dense", "sparse", "spmatrix", "mixed", "mixed"]); v.pop("level_rotation", None); v.pop("np_seed", None)
    if v["designation"] in ("blockseries", "blockseries-blocked"): v["container"] = "dict"
    if v["designation"] in ("indices", "blockseries") and rnd.random() < 0.5: v["interleave"] = True
    if v["designation"] == "vectors" and v["carrier"] != "dense" and rnd.random() < 0.6: v["sparse_vectors"] = True
    if v["carrier"] != "dense" and rnd.random() < 0.5: v["explicit_zeros"] = True
    # other units: the whole Hamiltonian times a power of two (exact in floating point), the absolute tolerance given in the same units
    v["scale_exp"] = rnd.choice([0, 0, 0, 0, 0, -70, -30, 40]) if not v["int_h0"] else 0
    # H_0 as it comes out of a numerical change of basis: zero off the diagonal only up to rounding (far below atol), in whatever carrier
    if not v["int_h0"] and v["designation"] not in ("rotated", "biorthogonal") and rnd.random() < 0.3:
        v["h0_noise"] = rnd.randrange(2**31)
    # degenerate levels as a numerical diagonalisation leaves them: equal only within the tolerance (offsets of a fraction of atol = 1e-12 units)
    if not v["int_h0"] and v["designation"] not in ("rotated", "biorthogonal") and max(abs(e[0]) for e in E) <= 100 and any(len(g) >= 2 for g in level_groups(P)) and rnd.random() < 0.4:
        v["level_jitter"] = True
    return v

def snap(x):
    """a value-level picture of an input object: container layout, identity of the stored objects, array contents"""
    from scipy import sparse
    if isinstance(x, dict): return ("dict", [(repr(k), id(val), snap(val)) for k, val in x.items()])
    if isinstance(x, (list, tuple)): return (type(x).__name__, [(id(val), snap(val)) for val in x])
    if sparse.issparse(x):
        if x.format == "csr": return (type(x).__name__, x.shape, str(x.dtype), x.nnz, x.indptr.tobytes(), x.indices.tobytes(), x.data.tobytes())      # the raw buffers
        c = x.tocoo(); return (type(x).__name__, x.shape, str(x.dtype), c.row.tobytes(), c.col.tobytes(), c.data.tobytes())
    if isinstance(x, np.ndarray): return ("ndarray", x.shape, str(x.dtype), x.tobytes())
    return ("other", type(x).__name__)

def run_impl_numeric(P, requests, v, rnd):
    """the same problem through the floating-point code in presentation `v`; returns full d x d matrices in the canonical basis"""
    from scipy import sparse
    import sympy as sp
    from pymablock.series import BlockSeries
    d, N, k = P["d"], P["N"], P["k"]; off = P["off"]; sizes = P["sizes"]; zero_n = (0,) * k
    cplx = any(z[1] != 0 for m in P["terms"].values() for row in m for z in row)
    mats = {}
    for n, m in P["terms"].items():
        a = to_float(m); mats[n] = a if cplx else a.real.copy()
    if v["int_h0"]: mats[zero_n] = np.rint(mats[zero_n].real).astype(int)
    if v.get("int_all"): mats = {n: np.rint(m.real).astype(int) for n, m in mats.items()}
    unit = 2.0 ** v.get("scale_exp", 0)
    if unit != 1.0: mats = {n: m * unit for n, m in mats.items()}
    if v.get("level_jitter"):
        mats[zero_n] = mats[zero_n].astype(complex if cplx else float)
        for g in level_groups(P):
            if len(g) >= 2:
                for t, a in enumerate(g): mats[zero_n][a, a] += (0.3e-12 if t % 2 == 0 else 0.8e-12) * unit
    if v.get("h0_noise") is not None:
        nrng = np.random.default_rng(v["h0_noise"]); scale = 3e-15 * unit
        noise = nrng.uniform(-1, 1, size=(d, d)) * scale; noise = (noise + noise.T) / 2; np.fill_diagonal(noise, 0)
        mats[zero_n] = mats[zero_n] + noise
    snapshot = None
    R = np.eye(d, dtype=complex)          # rotation inside degenerate levels (canonical coordinates)
    kw = {}
    if v["designation"] == "rotated":
        rng = np.random.default_rng(v["np_seed"])
        def unitary(m):
            z = rng.normal(size=(m, m)) + (1j * rng.normal(size=(m, m)) if cplx else 0)
            q, _ = np.linalg.qr(z); return q
        Q = unitary(d)
        if v.get("level_rotation"):
            for g in level_groups(P):
                if len(g) >= 2: R[np.ix_(g, g)] = unitary(len(g))
        if not cplx: R = R.real.astype(complex)
        W = Q @ (R if cplx else R.real)                     # new basis vectors (columns) in the rotated frame
        mats = {n: Q @ m @ Q.conj().T for n, m in mats.items()}
        kw["subspace_eigenvectors"] = [W[:, off[b]:off[b + 1]] for b in range(N)]
    if v["designation"] == "biorthogonal":
        Sm = to_float(P["lab"]["S"]); Sim = to_float(P["lab"]["Sinv"])
        mats = {n: to_float(m) * unit for n, m in P["lab"]["terms"].items()}
        kw["subspace_eigenvectors"] = [(Sm[:, off[b]:off[b + 1]], Sim.conj().T[:, off[b]:off[b + 1]]) for b in range(N)]
    idx_labels = P["blocks"]
    if v["designation"] in ("indices", "blockseries") and v.get("interleave"):
        idx_labels, perm = interleave(P, rnd)
        mats = {n: m[np.ix_(perm, perm)] for n, m in mats.items()}
    def conv(a):
        c = v["carrier"] if v["carrier"] != "mixed" else rnd.choice(["dense", "sparse", "spmatrix"])
        if c in ("dense", "by-order", "legacy-high-orders"): return a
        if v.get("explicit_zeros") and a.ndim == 2 and a.size:
            # CSR with every entry stored, zeros included (what arithmetic on sparse matrices leaves behind): the caller's buffers must survive as they are
            rr, cc = np.indices(a.shape); args = ((a.ravel().copy(), (rr.ravel(), cc.ravel())),); kws = dict(shape=a.shape)
            return sparse.csr_array(*args, **kws) if c == "sparse" else sparse.csr_matrix(*args, **kws)
        return sparse.csr_array(a) if c == "sparse" else sparse.csr_matrix(a)
    if v["designation"] == "blocked":
        H = {n: [[conv(m[off[i]:off[i + 1], off[j]:off[j + 1]]) for j in range(N)] for i in range(N)] for n, m in mats.items()}
    elif v["designation"] == "blockseries-blocked":
        # a user-made series of pre-separated blocks: the values reach the algorithm as they are (legacy sparse matrices included)
        data = {}
        for n, m in mats.items():
            for i in range(N):
                for j in range(N):
                    blk = m[off[i]:off[i + 1], off[j]:off[j + 1]]
                    if np.any(blk != 0) or (i == j and not any(n)):
                        # (carriers that differ between the orders of a series of blocks: arrays up to first order, legacy sparse matrices above)
                        data[(i, j) + tuple(n)] = (sparse.csr_matrix(blk) if sum(n) >= 2 else blk) if v["carrier"] == "legacy-high-orders" else conv(blk)
        H = BlockSeries(data=data, shape=(N, N), n_infinite=k)
        if os.environ.get("BD_DEBUG"):
            import pickle; pickle.dump({"data": data, "fd": P["fd_py"], "hermitian": P["hermitian"], "N": N, "k": k}, open(os.environ["BD_DEBUG"], "wb"))
    else:
        H = {n: conv(m) for n, m in mats.items()}
        if v["carrier"] == "by-order":      # dense first-order terms next to legacy sparse matrices at the other orders
            H = {n: (m if sum(n) % 2 == 1 else sparse.csr_matrix(m) if sum(n) else sparse.coo_matrix(m)) for n, m in mats.items()}
    if v["designation"] in ("indices", "blockseries"): kw["subspace_indices"] = idx_labels
    if v["designation"] == "vectors":
        eye = np.eye(d); kw["subspace_eigenvectors"] = [eye[:, off[b]:off[b + 1]] for b in range(N)]
        if v.get("sparse_vectors"):      # eigenvectors in the carrier of the Hamiltonian (any mixture of arrays, sparse arrays and legacy sparse matrices)
            kw["subspace_eigenvectors"] = [conv(x) for x in kw["subspace_eigenvectors"]]
    if v["container"] == "list":
        H = [H[zero_n]] + [H.get(tuple(int(a == b) for b in range(k)), np.zeros((d, d)) if v["designation"] != "blocked" else None) for a in range(k)]
        if any(x is None for x in H):      # a missing first-order term in block form: fall back to the dict
            H = {n: H_ for n, H_ in zip([zero_n] + [tuple(int(a == b) for b in range(k)) for a in range(k)], H) if H_ is not None}
    elif v["container"] == "monomials":
        syms = sp.symbols("p0:%d" % k); kw_syms = list(syms)
        H = {sp.Mul(*[s ** e for s, e in zip(syms, n)]) if any(n) else sp.S.One: m for n, m in H.items()}
    elif v["designation"] == "blockseries":
        data = dict(H); H = BlockSeries(data=data, shape=(), n_infinite=k)
    is_series = isinstance(H, BlockSeries)
    before = snap(H._data if is_series else H); vec_before = snap(kw.get("subspace_eigenvectors"))
    fd_before = snap(P["fd_py"]) if isinstance(P["fd_py"], dict) else None
    if unit != 1.0: kw["atol"] = 1e-12 * unit
    if P.get("atol"): kw["atol"] = float(P["atol"]) * unit
    Ht, U, Ud = block_diagonalize(H, fully_diagonalize=P["fd_py"], hermitian=P["hermitian"], **kw)
    S = {"H_tilde": Ht, "U": U, "U†": Ud}; out = []; handed = []
    for (name, i, j, n) in requests:
        try:
            x = S[name][(i, j) + tuple(n)]
        except Exception as e:
            out.append(("err", type(e).__name__, str(e))); continue
        full = np.zeros((d, d), dtype=complex)
        if x is zero: out.append(("zero", full)); continue
        if x is not one: handed.append((x, snap(x)))
        if x is one: x = np.eye(sizes[i])
        if hasattr(x, "toarray"): x = x.toarray()
        full[off[i]:off[i] + sizes[i], off[j]:off[j] + sizes[j]] = np.asarray(x, dtype=complex)
        if name == "H_tilde" and unit != 1.0: full = full / unit
        out.append(("val", R @ full @ R.conj().T))         # back to the canonical basis
    # C10, mutation clause: the caller's containers and arrays, and every value already handed out, are unchanged
    if not is_series and snap(H) != before: out.append(("mutated", "the Hamiltonian container or its arrays"))
    if snap(kw.get("subspace_eigenvectors")) != vec_before: out.append(("mutated", "subspace_eigenvectors"))
    if fd_before is not None and snap(P["fd_py"]) != fd_before: out.append(("mutated", "fully_diagonalize"))
    if any(snap(x) != s0 for x, s0 in handed): out.append(("mutated", "a value returned earlier"))
    return out

def to_json(P, requests, algo):
    d = P["d"]
    return json.dumps({"cmd": "bd", "algo": algo, "d": d, "blocks": P["blocks"], "nblocks": P["N"], "nparams": P["k"],
        "terms": [{"order": list(n), "mat": [gstr(m[a][b]) for a in range(d) for b in range(d)]} for n, m in P["terms"].items()],
        "hermitian": P["hermitian"], "fd": P["fd"], "atol": (f'{P["atol"].numerator}/{P["atol"].denominator}' if P.get("atol") else "1/1000000000000"),
        "requests": [{"name": nm, "i": i, "j": j, "n": list(n)} for (nm, i, j, n) in requests]})

def parse_model(line, d):
    res = []
    for tok in line.strip().split("|"):
        if tok == "zero": res.append(("zero",))
        elif tok.startswith("err"): res.append(("err", tok))
        else:
            kind, payload = tok.split(" ", 1)
            ents = payload.split(";")
            def pr(s):
                a, b = s.split("/"); return Fraction(int(a), int(b))
            full = [[None] * d for _ in range(d)]
            for idx, e in enumerate(ents):
                re, im = e.split(","); full[idx // d][idx % d] = (pr(re), pr(im))
            res.append((kind, full))
    return res


def oracle(P, reqs, impl, maxn):
    """the property itself on the implementation's output, in exact rational arithmetic on whole matrices:
    sum_{n1+n2+n3=n} U†_{n1} H_{n2} U_{n3} = H_tilde_n and sum_{n1+n2=n} U†_{n1} U_{n2} = delta_{n,0}"""
    d = P["d"]; Z = (Fraction(0), Fraction(0))
    def zeros(): return [[Z] * d for _ in range(d)]
    def add(A, B): return [[(A[a][b][0] + B[a][b][0], A[a][b][1] + B[a][b][1]) for b in range(d)] for a in range(d)]
    def mul(A, B):
        C = zeros()
        for a in range(d):
            for c in range(d):
                x = A[a][c]
                if x == Z: continue
                row = B[c]
                C[a] = [(C[a][b][0] + x[0] * row[b][0] - x[1] * row[b][1], C[a][b][1] + x[0] * row[b][1] + x[1] * row[b][0]) for b in range(d)]
        return C
    whole = {}
    for r, a in zip(reqs, impl):
        if a[0] in ("exc", "err"): return None
        key = (r[0], tuple(r[3]))
        if a[0] != "zero": whole[key] = add(whole.get(key, zeros()), a[1])
    def W(name, n): return whole.get((name, tuple(n)), zeros())
    def H(n): return P["terms"].get(tuple(n), zeros())
    def splits(n, parts):
        if parts == 1: yield (n,); return
        for first in itertools.product(*[range(x + 1) for x in n]):
            rest = tuple(a - b for a, b in zip(n, first))
            for tail in splits(rest, parts - 1): yield (first,) + tail
    eye = [[(Fraction(int(a == b)), Fraction(0)) for b in range(d)] for a in range(d)]
    found = {}
    def report(r): found.setdefault(r["property"], r)
    for n in itertools.product(*[range(m + 1) for m in maxn]):
        acc = zeros(); uni = zeros()
        for (n1, n2, n3) in splits(n, 3):
            if tuple(n2) in P["terms"]: acc = add(acc, mul(mul(W("U†", n1), H(n2)), W("U", n3)))
        for (n1, n2) in splits(n, 2): uni = add(uni, mul(W("U†", n1), W("U", n2)))
        if uni != (eye if not any(n) else zeros()): report({"identity": "U†U = 1", "order": list(n), "property": "C01"})
        if acc != W("H_tilde", n): report({"identity": "U†HU = H_tilde", "order": list(n), "property": "C01"})
        Ht = W("H_tilde", n); Un = W("U", n); Udn = W("U†", n)
        for a in range(d):
            for b in range(d):
                same = P["blocks"][a] == P["blocks"][b]
                if Ht[a][b] != Z and (not same or eliminated(P, a, b)):
                    report({"identity": "H_tilde vanishes outside the kept entries", "entry": [a, b], "order": list(n), "property": "C02"})
                if P["hermitian"] and any(n) and same and not eliminated(P, a, b) and Un[a][b] != Udn[a][b]:
                    report({"identity": "gauge: kept part of U - U† vanishes", "entry": [a, b], "order": list(n), "property": "C03"})
    # C04: H_tilde and H have the same power traces, order by order (truncated series arithmetic)
    orders = list(itertools.product(*[range(m + 1) for m in maxn]))
    def smul(A, B):
        C = {}
        for n in orders:
            acc = zeros()
            for (n1, n2) in splits(n, 2):
                if n1 in A and n2 in B: acc = add(acc, mul(A[n1], B[n2]))
            C[n] = acc
        return C
    SH = {n: H(n) for n in orders if tuple(n) in P["terms"]}; ST = {n: W("H_tilde", n) for n in orders}
    PH, PT = dict(SH), dict(ST)
    for kpow in range(1, d + 1):
        for n in orders:
            trH = sum((PH[n][a][a][0] for a in range(d)), Fraction(0)) if n in PH else Fraction(0)
            trT = sum((PT[n][a][a][0] for a in range(d)), Fraction(0)) if n in PT else Fraction(0)
            if trH != trT: report({"identity": f"tr(H_tilde^{kpow}) = tr(H^{kpow})", "order": list(n), "property": "C04"})
        if kpow < d: PH, PT = smul(PH, SH), smul(PT, ST)
    return (dict(found[min(found)], all=sorted(found)) if found else None)

def eliminated(P, a, b):
    """is entry (a,b), a and b in the same block, one the transformation must eliminate?"""
    d = P["d"]; k = P["k"]; E = [P["terms"][(0,) * k][x][x] for x in range(d)]; blk = P["blocks"][a]
    fd = P["fd"]
    if fd["kind"] == "none": return P["N"] == 1 and E[a] != E[b]
    if fd["kind"] == "tuple":
        sel = fd["blocks"] or ([0] if P["N"] == 1 else [])
        return blk in sel and E[a] != E[b]
    masks = {m["block"]: m["mask"] for m in fd["masks"]}
    if not masks and P["N"] == 1: return E[a] != E[b]
    return blk in masks and bool(masks[blk][a * d + b])

def d5_class(P):
    """a kept (not eliminated) off-diagonal pair inside a block joins two different unperturbed energies"""
    d = P["d"]; k = P["k"]; E = [P["terms"][(0,) * k][a][a] for a in range(d)]
    sel = None
    if P["fd"]["kind"] == "tuple": sel = {b: None for b in P["fd"]["blocks"]}
    if P["fd"]["kind"] == "dict": sel = {m["block"]: m["mask"] for m in P["fd"]["masks"]}
    if P["fd"]["kind"] == "none" and P["N"] == 1: sel = {0: None}
    for a in range(d):
        for b in range(d):
            if a == b or P["blocks"][a] != P["blocks"][b] or E[a] == E[b]: continue
            blk = P["blocks"][a]
            if sel is None or blk not in sel: return True            # block not fully diagonalised: everything kept
            if sel[blk] is not None and not sel[blk][a * d + b]: return True   # dict mask keeps this pair
    return False

def ser_problem(P):
    return {"sizes": P["sizes"], "k": P["k"], "blocks": P["blocks"], "hermitian": P["hermitian"], "fd": P["fd"],
            "terms": {",".join(map(str, n)): [[gstr(z) for z in row] for row in m] for n, m in P["terms"].items()}}

def main(seed, ncases, driver, out, mode="all"):
    rnd = random.Random(seed)
    proc = subprocess.Popen([driver], stdin=subprocess.PIPE, stdout=subprocess.PIPE, text=True)
    num_stats = {}; num_worst = 0.0; num_evals = 0
    failures = []; stats = {}; samples = []; evals = 0; distinct = set(); t_impl = t_model = t_oracle = 0.0; oracle_cases = 0; in_class_ok = 0
    for c in range(ncases):
        if skip(c): continue
        rnd = case_rnd(seed, c)
        hermitian = (rnd.random() < 0.6) if mode == "all" else False
        force = DESIGNED[c] if c < len(DESIGNED) and (mode == "all" or not DESIGNED[c]["hermitian"]) else None
        if force: hermitian = force["hermitian"]
        P = gen_problem(rnd, hermitian, force)
        if force and "atol" in force: P["atol"] = Fraction(force["atol"]); P["numeric_only"] = True
        while mode == "nhsafe" and d5_class(P): P = gen_problem(rnd, hermitian, None)      # (formats stream: non-Hermitian problems outside the class of finding D5)
        maxn = (3,) if P["k"] == 1 else (2, 1)
        if c % 5 == 4 and P["d"] <= 4:      # small problems to higher order (deletion of once-used terms, longer recurrences)
            maxn = (5,) if P["k"] == 1 else (3, 2); stats["higher orders"] = stats.get("higher orders", 0) + 1
        reqs = [(nm, i, j, n) for n in itertools.product(*[range(m + 1) for m in maxn]) for nm in ("H_tilde", "U", "U†") for i in range(P["N"]) for j in range(P["N"])]
        rnd.shuffle(reqs)
        t0 = time.time()
        try:
            P["as_polynomial"] = rnd.random() < (0.3 if P["k"] == 1 else 0.5)
            if P["as_polynomial"]: stats["exact run given as one SymPy polynomial matrix"] = stats.get("exact run given as one SymPy polynomial matrix", 0) + 1
            layout = interleave(P, rnd) if rnd.random() < 0.5 else None
            if layout is not None: stats["interleaved subspace_indices (exact run)"] = stats.get("interleaved subspace_indices (exact run)", 0) + 1
            impl = run_impl(P, reqs, layout) if not P.get("numeric_only") else None
        except Exception as e:
            impl = [("exc", type(e).__name__, str(e)[:100])] * len(reqs)
        t_impl += time.time() - t0
        t0 = time.time()
        proc.stdin.write(to_json(P, reqs, "main" if hermitian else "nonhermitian") + "\n"); proc.stdin.flush()
        line = proc.stdout.readline(); t_model += time.time() - t0
        key = "%d blocks, %d params, fd=%s, hermitian=%s" % (P["N"], P["k"], P["fd"]["kind"], hermitian)
        stats[key] = stats.get(key, 0) + 1
        if line.startswith("bad"):
            failures.append({"case": c, "kind": "driver-rejected", "detail": line.strip(), "problem": ser_problem(P)}); continue
        model = parse_model(line, P["d"])
        nontrivial = False
        for r, a, b in zip(reqs, impl if impl is not None else [], model):
            evals += 1
            if a[0] in ("exc", "err") or b[0] == "err":
                if not (a[0] in ("exc", "err") and b[0] == "err"):
                    failures.append({"case": c, "kind": "error-mismatch", "request": list(r[:3]) + [list(r[3])], "impl": [str(x) for x in a[:3]], "model": b[0], "problem": ser_problem(P)}); break
                continue
            if a[0] == "zero" and b[0] == "zero": continue
            zero_m = [[(Fraction(0), Fraction(0))] * P["d"] for _ in range(P["d"])]
            fa = a[1] if a[0] != "zero" else zero_m
            fb = b[1] if b[0] != "zero" else zero_m
            if fa != fb:
                failures.append({"case": c, "kind": "value-mismatch", "request": list(r[:3]) + [list(r[3])], "problem": ser_problem(P),
                                 "impl": [[gstr(z) for z in row] for row in fa], "model": [[gstr(z) for z in row] for row in fb]}); break
            if sum(r[3]) >= 2 and fa != zero_m: nontrivial = True
        # floating-point carriers against the exact model value (rounding proportional to the size of the terms)
        if not any(f["case"] == c for f in failures):
            variant = choose_variant(P, rnd); carrier = variant
            if c % 8 == 2 and not (force and force.get("variant")):      # pre-separated CSR blocks that store explicit zeros: the caller's buffers are compared afterwards
                variant.update(designation="blocked", carrier="sparse", container="dict", int_h0=False, scale_exp=0, explicit_zeros=True); variant.pop("interleave", None); variant.pop("sparse_vectors", None)
            if force and force.get("variant"):
                for kk in ("interleave", "sparse_vectors", "level_rotation", "np_seed", "int_all", "h0_noise", "level_jitter", "explicit_zeros"): variant.pop(kk, None)
                variant.update(force["variant"])
            if not hermitian and c % 8 in (0, 1):      # pre-separated sparse blocks in the non-Hermitian algorithm: the values reach the solver as the caller's own objects
                variant.update(designation="blocked", carrier="sparse", container="dict", int_h0=False, scale_exp=0); variant.pop("interleave", None); variant.pop("sparse_vectors", None)
            for kk in ("carrier", "designation", "container"): num_stats[kk + "=" + variant[kk]] = num_stats.get(kk + "=" + variant[kk], 0) + 1
            if variant["int_h0"]: num_stats["int_h0"] = num_stats.get("int_h0", 0) + 1
            if variant.get("level_rotation"): num_stats["level_rotation"] = num_stats.get("level_rotation", 0) + 1
            if variant.get("explicit_zeros"): num_stats["explicit_zeros"] = num_stats.get("explicit_zeros", 0) + 1
            if variant.get("h0_noise") is not None: num_stats["h0_noise"] = num_stats.get("h0_noise", 0) + 1
            if variant.get("level_jitter"): num_stats["level_jitter"] = num_stats.get("level_jitter", 0) + 1
            if variant.get("sparse_vectors"): num_stats["sparse_vectors"] = num_stats.get("sparse_vectors", 0) + 1
            if variant.get("scale_exp"): num_stats["units=2^%d" % variant["scale_exp"]] = num_stats.get("units=2^%d" % variant["scale_exp"], 0) + 1
            try:
                num = run_impl_numeric(P, reqs, variant, rnd)
            except Exception as e:
                num = [("exc", type(e).__name__, str(e)[:100])] * len(reqs)
            for extra_ in num[len(reqs):]:
                failures.append({"case": c, "kind": "caller-data-mutated", "what": extra_[1], "carrier": carrier, "problem": ser_problem(P)})
            for r, a, b in zip(reqs, num, model):
                if a[0] in ("exc", "err") or b[0] == "err":
                    if not (a[0] in ("exc", "err") and b[0] == "err"):
                        failures.append({"case": c, "kind": "error-mismatch-numeric", "carrier": carrier, "request": list(r[:3]) + [list(r[3])],
                                         "impl": [str(x) for x in a[:3]], "model": b[0], "problem": ser_problem(P)}); break
                    continue
                ref = to_float(b[1]) if b[0] != "zero" else np.zeros((P["d"], P["d"]), dtype=complex)
                if not np.all(np.isfinite(a[1])):
                    failures.append({"case": c, "kind": "non-finite-numeric-output", "carrier": carrier, "request": list(r[:3]) + [list(r[3])], "problem": ser_problem(P)}); break
                err = float(np.abs(a[1] - ref).max()); scale = 1 + float(np.abs(ref).max()); num_worst = max(num_worst, err / scale); num_evals += 1
                if err > 1e-9 * scale:
                    failures.append({"case": c, "kind": "value-mismatch-numeric", "carrier": carrier, "request": list(r[:3]) + [list(r[3])], "abs_err": err,
                                     "problem": ser_problem(P)}); break
        if impl is None: nontrivial = True
        if (hermitian or mode in ("nh", "nhsafe")) and not any(f["case"] == c for f in failures) and impl and impl[0][0] != "exc":
            t0 = time.time()
            try:
                o = oracle(P, reqs, impl, maxn)
            except Exception as e:
                o = {"identity": "oracle crashed", "error": repr(e)[:200]}
            t_oracle += time.time() - t0; oracle_cases += 1
            if o is not None:
                f = {"case": c, "kind": "property-fails-on-implementation", "oracle": o, "problem": ser_problem(P)}
                if not hermitian and d5_class(P): f["signature"] = "nonhermitian-kept-offdiag-joins-different-energies"
                failures.append(f)
            elif not hermitian and d5_class(P): in_class_ok += 1
        if nontrivial: distinct.add(json.dumps(ser_problem(P), sort_keys=True))
        if len(samples) < 2: samples.append(ser_problem(P))
    proc.stdin.close()
    res = {"evaluations": evals, "cases": ncases, "distinct_nontrivial": len(distinct), "failures": failures, "distribution": stats,
           "samples": samples, "impl_s": round(t_impl, 2), "model_s": round(t_model, 2), "oracle_s": round(t_oracle, 2), "oracle_cases": oracle_cases, "in_known_class_but_correct": in_class_ok,
           "extra": {"numeric_carriers": num_stats, "numeric_elements": num_evals, "numeric_worst_relative_error": num_worst}}
    json.dump(res, open(out, "w"))

if __name__ == "__main__":
    main(int(sys.argv[1]), int(sys.argv[2]), sys.argv[3], sys.argv[4], *(sys.argv[5:6]))
