"""C09 on the real compiler: `series_computation` on hand-written programs (harness/progs.py) with random inputs and
flags vs the direct interpretation of the same source text (dslref.Interp)."""
import os, sys; sys.path.insert(0, os.path.dirname(os.path.abspath(__file__)))
from common import case_rnd, skip
import sys, os, json, random, itertools, warnings
import numpy as np
warnings.simplefilter("ignore")
HERE = os.path.dirname(os.path.abspath(__file__)); sys.path.insert(0, HERE); sys.path.insert(0, os.path.dirname(HERE))
from pymablock.series import BlockSeries, zero, one
from pymablock.algorithm_parsing import series_computation
import progs
from dslref import parse, Interp

def main(seed, ncases, driver, out):
    rnd = random.Random(seed); failures = []; dist = {}; samples = []; evals = 0; distinct = 0
    names = ["prog_basic", "prog_nested", "prog_flags", "prog_lower", "prog_herm3", "prog_primes", "prog_unitary", "prog_twoargs"]
    for c in range(ncases):
        if skip(c): continue
        rnd = case_rnd(seed, c)
        pname = names[c % len(names)]; fn = getattr(progs, pname)
        N = rnd.randint(1, 3); sizes = [rnd.randint(1, 2) for _ in range(N)]; rng = np.random.default_rng(rnd.randrange(2**31))
        cplx = rnd.random() < 0.5
        def block(i, j): 
            m = rng.integers(-2, 3, size=(sizes[i], sizes[j])).astype(complex)
            if cplx: m = m + 1j * rng.integers(-1, 2, size=m.shape)
            return m
        data = {}
        for n in range(0, 3):
            full = [[block(i, j) for j in range(N)] for i in range(N)]
            for i in range(N):
                for j in range(i, N):
                    b = full[i][j]
                    if i == j: b = (b + b.conj().T) / 2
                    if rnd.random() < 0.25: continue                      # absent element = zero
                    data[(i, j, n)] = b
                    if i != j: data[(j, i, n)] = b.conj().T               # Hermitian input
        H = BlockSeries(data=dict(data), shape=(N, N), n_infinite=1, name="H")
        flag_a = rnd.random() < 0.3; flags_b = [rnd.random() < 0.4 for _ in range(N)]
        use_offdiag = rnd.random() < 0.5
        gval = lambda v, idx, c1, c2: None if v is None else v * (c1 + c2 * (idx[0] + 2 * idx[1]))
        def wrap_real(c1, c2):
            def f(x, index):
                x = x[index] if isinstance(x, BlockSeries) else x
                return zero if x is zero else x * (c1 + c2 * (index[0] + 2 * index[1]))
            return f
        def diag_real(x, index):
            x = x[index] if isinstance(x, BlockSeries) else x
            return x
        def offdiag_real(x, index):
            x = x[index] if isinstance(x, BlockSeries) else x
            return zero if x is zero else x * 0.5
        def h2_real(x, y, index):      # a scope function of two arguments, not symmetric in them: 3 x - 2 y (absent values count as nothing)
            x = x[index] if isinstance(x, BlockSeries) else x; y = y[index] if isinstance(y, BlockSeries) else y
            if x is zero and y is zero: return zero
            return (0 if x is zero else 3 * x) - (0 if y is zero else 2 * y)
        scope = {"f": wrap_real(2, 1), "g": wrap_real(1, -1), "h2": h2_real, "flag_a": flag_a, "flags_b": flags_b, "diag": diag_real,
                 "offdiag": offdiag_real if use_offdiag else None, "use_linear_operator": np.zeros((N, N), dtype=bool)}
        desc = {"program": pname, "sizes": sizes, "flag_a": flag_a, "flags_b": flags_b, "offdiag": use_offdiag, "complex": cplx,
                "absent": sorted([list(k) for k in itertools.product(range(N), range(N), range(3)) if k not in data])}
        key = pname; dist[key] = dist.get(key, 0) + 1
        if len(samples) < 2: samples.append(desc)
        prog = parse(os.path.join(HERE, "progs.py"), pname)
        I = None
        def rf(c1, c2):
            return lambda a, idx: gval(I.get(a[1], idx) if isinstance(a, tuple) else a, idx, c1, c2)
        def h2_ref(a, b, idx):
            a = I.get(a[1], idx) if isinstance(a, tuple) else a; b = I.get(b[1], idx) if isinstance(b, tuple) else b
            if a is None and b is None: return None
            return (0 if a is None else 3 * a) - (0 if b is None else 2 * b)
        rscope = {"f": rf(2, 1), "g": rf(1, -1), "h2": h2_ref, "flag_a": flag_a, "flags_b": flags_b, "diag": lambda v, idx: v}
        if use_offdiag: rscope["offdiag"] = lambda v, idx: None if v is None else v * 0.5
        # the element product is a parameter of the compiler (`operator=`): every product of every declared Cauchy product, of any number of factors, goes through it
        twist = rnd.random() < 0.4 and pname != "prog_unitary"      # (the identity sentinel of a factor is not passed through the operator: no twist there)
        opmul = (lambda a, b: 2 * (a @ b)) if twist else None
        desc["operator"] = "2 * (a @ b)" if twist else "default"
        I = Interp(prog, {"H": lambda idx: data.get(tuple(idx))}, rscope, N, 1, sizes, **({"mul": opmul} if twist else {}))
        try:
            outs, _ = series_computation({"H": H}, algorithm=fn, scope=scope, **({"operator": opmul} if twist else {}))
        except Exception as e:
            failures.append(dict(desc, kind="compiler-raises", error=type(e).__name__ + ": " + str(e)[:120])); continue
        reqs = [(nm, i, j, n) for nm in prog.outputs for i in range(N) for j in range(N) for n in range(0, 4)]
        rnd.shuffle(reqs); bad = None
        reqs = reqs + reqs            # everything is read a second time: a value handed out (or an input array) must not change under later evaluations
        inputs_before = {k_: v.tobytes() for k_, v in data.items()}
        for (nm, i, j, n) in reqs:
            evals += 1
            try:
                a = outs[nm][i, j, n]
            except Exception as e:
                bad = {"kind": "evaluation-raises", "request": [nm, i, j, n], "error": type(e).__name__ + ": " + str(e)[:120]}; break
            b = I.get(nm, (i, j, n))
            if a is one: a = np.eye(sizes[i])
            za = np.zeros((sizes[i], sizes[j])) if a is zero else np.asarray(a); zb = np.zeros((sizes[i], sizes[j])) if b is None else b
            if (a is zero) != (b is None) and np.abs(za - zb).max() > 1e-9 or np.abs(za - zb).max() > 1e-9:
                bad = {"kind": "differs-from-direct-interpretation", "request": [nm, i, j, n], "err": float(np.abs(za - zb).max())}; break
        if bad is None and {k_: v.tobytes() for k_, v in data.items()} != inputs_before: bad = {"kind": "input-arrays-mutated"}
        distinct += 1
        if bad: failures.append(dict(desc, **bad))
    json.dump({"evaluations": evals, "cases": ncases, "distinct_nontrivial": distinct, "failures": failures, "distribution": dist, "samples": samples}, open(out, "w"))

if __name__ == "__main__":
    main(int(sys.argv[1]), int(sys.argv[2]), sys.argv[3], sys.argv[4])
