"""Hand-written algorithms in the series mini-language, one per grammar feature, for the compiler correspondence (C09).
They are data for `series_computation` (compiled from their source text) and for the reference interpreter."""
# ruff: noqa

def prog_basic():
    with "A":
        start = 0
        hermitian
        if diagonal:
            "H" / 2 + "A @ A"
        if offdiagonal:
            f("H") - "A @ A"

    with "B":
        start = "H_0"
        "A".adj + "A @ A" / -3

    with "A @ A":
        hermitian

    return "A", "B"


def prog_nested():
    with "A":
        start = 0
        if diagonal:
            f("H") + g("A @ A")
        if offdiagonal:
            g(f("H")) - "A @ A"

    with "A @ A":
        pass

    return "A"


def prog_flags():
    with "A":
        start = 0
        antihermitian
        if offdiagonal:
            zero if flag_a else f("H" - "A @ A")
        if diagonal:
            zero if flags_b[index[0]] else "A @ A" - "A @ A".adj

    with "C":
        start = 1
        "A" + "A @ A" / 2

    with "A @ A":
        pass

    return "A", "C"


def prog_lower():
    with "A":
        start = 0
        if lower:
            "H".adj
        "H" / 2 + "A @ A @ H"

    with "A @ A @ H":
        pass

    return "A"


def prog_herm3():
    with "A":
        start = 0
        f("H")

    with "Ad":
        start = 0
        "A".adj

    with "M":
        start = 0
        hermitian
        "Ad @ H @ A" / 2 + "H"

    with "Ad @ H @ A":
        hermitian

    return "M", "A"


def prog_primes():
    # names in the library's style: "U @ H" is a string prefix of "U @ H' @ U" without being its leading factors,
    # and "U'" of "U'†"-like names; declared products of two, three and four factors
    with "U":
        start = 0
        f("H") / 2

    with "H'":
        start = 0
        g("H") + "U".adj

    with "W":
        start = 0
        "U @ H" - "U @ H' @ U" / 3 + "H' @ U @ H' @ U"

    with "U @ H":
        pass

    with "U @ H' @ U":
        pass

    with "H' @ U":
        pass

    with "H' @ U @ H' @ U":
        pass

    return "W", "H'"


def prog_unitary():
    # a Hermitian product whose factors start with the identity (the `one` sentinel takes part in the products)
    with "A":
        start = 0
        f("H") / 2

    with "U":
        start = 1
        "A"

    with "Ud":
        start = 1
        "A".adj

    with "N":
        start = 0
        "Ud @ U" + "A" / 3

    with "Ud @ U":
        hermitian

    return "N", "U", "Ud"


def prog_twoargs():
    with "A":
        start = 0
        f("H") / 2 + "A @ A"

    with "B":
        start = 0
        h2("A", "H" + "A".adj / 2) + h2("H" - "A @ A", "A") / 3

    with "A @ A":
        pass

    return "A", "B"

