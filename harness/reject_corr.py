"""C20 on the real code against the Lean model of the set-up checks (`Validate.setup`, driver command `validate`).

A case is a *configuration of facts* (mode, designation of the blocks, carrier, which off-diagonal blocks of H_0 are non-zero
and on which side of the diagonal, zero diagonal, form and defects of `fully_diagonalize`, (bi)orthonormality, solver options),
from which a concrete call of `block_diagonalize` is built.  Compared: accepted / rejected at set-up and the exception class.
Accepted cases are then evaluated through order 2: every output must be finite.  Classes that are decided later than set-up
(coupled blocks sharing an energy — also when equal only up to rounding —, a non-Hermitian symbolic term) keep their own
expectation: the listed error no later than the first request that needs the ill-defined quantity.
An exhaustive stratum runs first: every position (i, j), i != j, of a single offending H_0 block for three blocks, both modes,
every carrier and designation."""
import os, sys; sys.path.insert(0, os.path.dirname(os.path.abspath(__file__)))
from common import case_rnd, skip
import json, subprocess, warnings, itertools
import numpy as np, sympy
from scipy import sparse
warnings.simplefilter("ignore")
from pymablock import block_diagonalize

def enum_cases():
    out = []
    for herm in (False, True):
        for (i, j) in itertools.permutations(range(3), 2):
            if herm and i > j: continue
            for carrier in ("dense", "sparse", "sympy"):
                for desig in ("indices", "vectors", "blocked"):
                    if carrier == "sympy" and desig == "vectors": continue
                    out.append({"hermitian": herm, "offenders": [(i, j)], "carrier": carrier, "designation": desig, "sizes": [1, 2, 1]})
    # the deprecated one-argument solver is defined for two blocks: with three (of any sizes, equal ones included) it is refused at first use
    for sizes in ([1, 1, 1], [2, 2, 2], [2, 1, 2]):
        out.append({"hermitian": True, "offenders": [], "carrier": "dense", "designation": "indices", "sizes": sizes, "feature": "legacy-solver"})
    # the KPM solver with an auxiliary vector (an exact eigenvector of the implicit part) whose level is shared with an explicit subspace it couples to
    for sizes in ([1, 2], [2, 3]):
        out.append({"hermitian": True, "offenders": [], "carrier": "sparse", "designation": "implicit", "sizes": sizes, "feature": "kpm-aux-shared"})
    # a mask of the non-Hermitian algorithm (no symmetry asked) with a single entry between two equal levels, below or above the diagonal
    for side in ("lower", "upper"):
        for carrier in ("dense", "sparse"):
            out.append({"hermitian": False, "offenders": [], "carrier": carrier, "designation": "indices", "sizes": [2, 1], "feature": "fd-degenerate", "one_sided": side})
    return out

def gen(rnd):
    N = rnd.choice([1, 2, 2, 3, 3]); sizes = [rnd.randint(1, 2) for _ in range(N)]
    herm = rnd.random() < 0.5
    carrier = rnd.choice(["dense", "sparse", "sympy"])
    desig = rnd.choice(["indices", "indices", "vectors", "blocked", "implicit"]) if carrier != "sympy" else rnd.choice(["indices", "blocked"])
    if desig == "implicit" and N < 2: desig = "indices"
    cfg = {"hermitian": herm, "carrier": carrier, "designation": desig, "sizes": sizes, "offenders": []}
    feature = rnd.choice(["none", "none", "offdiag", "offdiag", "offdiag-unknown", "zero-diagonal", "fd-blocks", "fd-dict-ok", "fd-asymmetric", "fd-not-array",
                          "fd-degenerate", "fd-bare", "not-orthonormal", "pairs", "custom-solver", "custom-solver+fd", "legacy-solver",
                          "shared-eigenvalue", "shared-eigenvalue-rounding", "nonhermitian-symbolic-term", "implicit-fd-last", "kpm-nonhermitian",
                          "shared-eigenvalue-second-order", "fd-dict-multi", "fd-dict-multi", "nonhermitian-symbolic-term-2nd-quant", "not-orthonormal-across-subspaces",
                          "shared-eigenvalue-uncoupled-at-first-order"])
    cfg["feature"] = feature
    if feature == "shared-eigenvalue-second-order":
        # two blocks that share an energy and are coupled only through a third one: their coupling first appears at second order
        cfg["sizes"] = sizes = [rnd.randint(1, 2) for _ in range(3)]; N = 3
        if desig == "implicit": cfg["designation"] = "indices"
    if feature == "shared-eigenvalue-uncoupled-at-first-order":
        # two coupled blocks share an energy; the perturbation has an exact zero between the two degenerate states, which couple at second order
        cfg["sizes"] = sizes = [2, 2] + sizes[2:]; N = len(sizes)
        if desig == "implicit": cfg["designation"] = desig = "indices"
    if feature == "not-orthonormal-across-subspaces":
        # every subspace orthonormal by itself, a vector of one with a component along a zero-energy vector of another: H_0 still looks block diagonal
        if N < 2: cfg["sizes"] = sizes = [1, 2]; N = 2
        if carrier == "sympy": cfg["carrier"] = carrier = "dense"
        cfg["designation"] = desig = "vectors"
    if feature == "nonhermitian-symbolic-term-2nd-quant":
        # a c-number term that is not Hermitian on top of a second-quantised H_0 (Hermitian mode): still not a Hermitian input
        cfg["carrier"] = carrier = "sympy"; cfg["designation"] = desig = "indices"; cfg["hermitian"] = herm = True
        if sum(sizes) < 2: cfg["sizes"] = sizes = [1, 1]; N = 2
    if feature == "fd-dict-multi":
        # masks for several blocks in one dictionary, in any insertion order, the defective one (if any) at any position
        N = rnd.choice([2, 3, 3]); cfg["sizes"] = sizes = [2] * N
        if desig == "implicit": cfg["designation"] = desig = "indices"
        order = list(range(N)); rnd.shuffle(order); order = order[:rnd.randint(2, N)]
        cfg["multi"] = {"blocks": order, "defect": rnd.choice(["none", "asymmetric", "asymmetric", "not-array", "degenerate"]), "pos": rnd.randrange(len(order))}
    if feature in ("offdiag", "offdiag-unknown") and N >= 2:
        k = rnd.choice([1, 1, 2]); pairs = list(itertools.permutations(range(N), 2)); rnd.shuffle(pairs)
        cfg["offenders"] = [p for p in pairs[:k]]
    return cfg

def build(cfg, rnd):
    """-> (H, kwargs, facts for the model, expectation for late classes)"""
    sizes = cfg["sizes"]; N = len(sizes); d = sum(sizes); herm = cfg["hermitian"]; carrier = cfg["carrier"]; desig = cfg["designation"]
    feature = cfg.get("feature", "offdiag")
    blocks = sum([[b] * s for b, s in enumerate(sizes)], []); off = [0]
    for s in sizes: off.append(off[-1] + s)
    E = [10 * blocks[a] + rnd.choice([0, 1, 2]) + 1 + (a - off[blocks[a]]) * 3 for a in range(d)]      # distinct inside a block too
    H0 = np.diag(np.array(E, dtype=float))
    rng = np.random.default_rng(rnd.randrange(2**31))
    m = rng.integers(-3, 4, size=(d, d)).astype(float); H1 = m + m.T if herm else m + np.diag(np.arange(d))
    facts = {"hermitian": herm, "custom_solver": False, "legacy_solver": False, "fd": {"kind": "empty"}, "vectors": desig in ("vectors", "implicit"),
             "pair_form": False, "biorthonormal": True, "implicit": desig == "implicit", "blocked_input": desig == "blocked", "symbolic_h0": carrier == "sympy",
             "direct_solver": True, "array_vectors": True, "nblocks": N, "off": [], "diag_all_zero": False}
    kw = {"hermitian": herm}; late = None
    # ---- H_0 defects
    unknown = feature == "offdiag-unknown" and carrier == "sympy"
    offenders = list(cfg["offenders"])
    if herm: offenders = sorted(set(offenders) | {(j, i) for (i, j) in offenders})    # a Hermitian input has a symmetric pattern
    for (i, j) in offenders:
        H0[off[i], off[j]] = 0.5
        facts["off"].append({"i": i, "j": j, "test": "unknown" if unknown else "nonzero"})
    if feature == "zero-diagonal" and desig != "implicit":      # (implicit mode with H_0 = 0 is a shared-energy problem for the sparse LU: RuntimeError)
        H0 = np.zeros((d, d)); facts["diag_all_zero"] = True; facts["off"] = []
    if feature == "shared-eigenvalue" and N >= 2 and desig != "implicit":
        a, b = off[0], off[1]; H0[b, b] = H0[a, a]; H1[a, b] = H1[b, a] = 1.0; late = "shared"
    if feature == "shared-eigenvalue-rounding" and N >= 2 and carrier != "sympy" and desig != "implicit":
        a, b = off[0], off[1]; H0[a, a] = 0.1 + 0.2; H0[b, b] = 0.3; H1[a, b] = H1[b, a] = 1.0; late = "shared"
        for c in range(d):
            if c not in (a, b) and abs(H0[c, c] - 0.3) < 1: H0[c, c] += 5
    if feature == "not-orthonormal-across-subspaces": H0[off[1], off[1]] = 0.0
    if feature == "kpm-aux-shared" and desig == "implicit":
        a, b = off[0], off[N - 1]; H0[b, b] = H0[a, a]; H1[a, b] = H1[b, a] = 1.0; late = "shared"
    if feature == "shared-eigenvalue-uncoupled-at-first-order":
        a, b = off[0], off[1]; H0[b, b] = H0[a, a]; late = "shared-uncoupled"
        for (i, j, v) in ((a, b, 0.0), (a, a + 1, 1.0), (a + 1, b, 1.0), (a, b + 1, 1.0), (b + 1, b, 2.0)): H1[i, j] = H1[j, i] = v
    if feature == "shared-eigenvalue-second-order":
        a, m_, b = off[0], off[1], off[2]; H0[b, b] = H0[a, a]
        for i in range(off[0], off[1]):
            for j in range(off[2], off[3]): H1[i, j] = H1[j, i] = 0.0          # no direct coupling between blocks 0 and 2
        H1[a, m_] = H1[m_, a] = 1.0; H1[m_, b] = H1[b, m_] = 1.0; late = "shared2"
    # ---- fully_diagonalize
    if feature == "fd-dict-multi":
        fd = {}; mfs = []
        for pos, blk in enumerate(cfg["multi"]["blocks"]):
            a = off[blk]; mask = np.array([[False, True], [True, False]]); defect = cfg["multi"]["defect"] if pos == cfg["multi"]["pos"] else "none"
            mf = {"block": blk, "is_array": True, "symmetric": True, "eliminates_degenerate": False}
            if defect == "asymmetric": mask = np.array([[False, True], [False, False]]) if rnd.random() < 0.5 else np.array([[False, False], [True, False]]); mf["symmetric"] = False
            if defect == "degenerate": H0[a + 1, a + 1] = H0[a, a]; mf["eliminates_degenerate"] = True
            val = mask
            if defect == "not-array": val = mask.tolist(); mf["is_array"] = False
            fd[blk] = val; mfs.append(mf)
        kw["fully_diagonalize"] = fd; facts["fd"] = {"kind": "dict", "masks": mfs}
    big = max(range(N), key=lambda i: sizes[i])
    if feature == "fd-blocks":
        sel = [b for b in range(N) if rnd.random() < 0.6]; kw["fully_diagonalize"] = tuple(sel); facts["fd"] = {"kind": "blocks", "blocks": sel}
    if feature in ("fd-dict-ok", "fd-asymmetric", "fd-not-array", "fd-degenerate", "fd-bare") and sizes[big] == 2:
        a = off[big]; mask = np.array([[False, True], [True, False]])
        mf = {"block": big, "is_array": True, "symmetric": True, "eliminates_degenerate": False}
        if feature == "fd-asymmetric": mask = np.array([[False, True], [False, False]]); mf["symmetric"] = False
        if feature == "fd-degenerate":
            H0[a + 1, a + 1] = H0[a, a]; mf["eliminates_degenerate"] = True
            side = cfg.get("one_sided") or (rnd.choice(["lower", "lower", "upper", None, None]) if not herm else None)
            if not herm and side:      # (no symmetry is asked of a mask in the non-Hermitian algorithm: one entry, on either side of the diagonal)
                mask = np.array([[False, False], [True, False]]) if side == "lower" else np.array([[False, True], [False, False]]); mf["symmetric"] = False
        val = mask
        if feature == "fd-not-array": val = mask.tolist(); mf["is_array"] = False
        if feature == "fd-bare":
            kw["fully_diagonalize"] = val; facts["fd"] = dict(mf, kind="bare")
        else:
            kw["fully_diagonalize"] = {big: val}; facts["fd"] = {"kind": "dict", "masks": [mf]}
    # ---- carriers
    if carrier == "sympy":
        S0 = sympy.Matrix(d, d, lambda a, b: sympy.nsimplify(H0[a, b], rational=True)); S1 = sympy.Matrix(H1.astype(int))
        if unknown:
            x = sympy.Symbol("x", real=True); und = sympy.sin(x) ** 2 + sympy.cos(x) ** 2 - 1
            for f in facts["off"]: S0[off[f["i"]], off[f["j"]]] = und
        Hs = [S0, S1]
        if feature in ("nonhermitian-symbolic-term", "nonhermitian-symbolic-term-2nd-quant") and herm and desig == "indices" and d >= 2:
            S1b = S1.copy(); S1b[0, d - 1] = S1b[0, d - 1] + 1; lam = sympy.Symbol("lambda", real=True)
            if feature.endswith("2nd-quant"):
                from sympy.physics.quantum import Dagger as _Dg
                from sympy.physics.quantum.boson import BosonOp as _Bo
                _a = _Bo("a"); S0 = S0 + sympy.Rational(1, 3) * _Dg(_a) * _a * sympy.eye(d)       # a boson number operator on every diagonal entry
            Hs = S0 + lam * S1b; kw["symbols"] = [lam]; late = "nonhermitian-term"
    else:
        conv = (lambda x: sparse.csr_array(x)) if carrier == "sparse" else (lambda x: np.array(x))
        Hs = [conv(H0), conv(H1)]
    # ---- designation
    eye = np.eye(d); vecs = [eye[:, off[b]:off[b + 1]] for b in range(N)]
    if desig == "indices": kw["subspace_indices"] = blocks
    elif desig == "blocked":
        def cut(M): return [[M[off[i]:off[i + 1], off[j]:off[j + 1]] for j in range(N)] for i in range(N)]
        Hs = [cut(M) for M in Hs] if isinstance(Hs, list) else Hs
    else:
        use = vecs if desig == "vectors" else vecs[:-1]
        if feature == "pairs": use = [(v, v.copy()) for v in use]; facts["pair_form"] = True
        if feature == "not-orthonormal":
            use = list(use); use[0] = (use[0][0] * 1.5, use[0][1]) if isinstance(use[0], tuple) else use[0] * 1.5; facts["biorthonormal"] = False
        if feature == "not-orthonormal-across-subspaces":
            use = [np.array(u, dtype=float) for u in use]; b0 = off[1]                        # first state of the second subspace, given zero energy
            v = use[0][:, 0] + 0.6 * eye[:, b0]; use[0][:, 0] = v / np.linalg.norm(v); facts["biorthonormal"] = False
        # (implicit mode with a solver of the caller's and sparse vectors is outside the documented inputs: the projector needs arrays)
        if carrier == "sparse" and rnd.random() < 0.6 and feature != "kpm-aux-shared" and not (desig == "implicit" and feature in ("custom-solver", "custom-solver+fd", "legacy-solver")):      # the eigenvectors in the carrier of the Hamiltonian: sparse arrays or legacy sparse matrices
            cv = sparse.csr_array if rnd.random() < 0.5 else sparse.csr_matrix
            use = [tuple(cv(np.asarray(w)) for w in u) if isinstance(u, tuple) else cv(np.asarray(u)) for u in use]; cfg["sparse_vectors"] = cv.__name__
            if desig == "implicit": facts["array_vectors"] = False      # (implicit mode asks for NumPy arrays: TypeError)
        kw["subspace_eigenvectors"] = use
        if desig == "implicit":
            if feature == "implicit-fd-last": kw["fully_diagonalize"] = (N - 1,); facts["fd"] = {"kind": "blocks", "blocks": [N - 1]}
            if feature == "kpm-nonhermitian": kw["direct_solver"] = False; facts["direct_solver"] = False
            if feature == "kpm-aux-shared":
                kw["direct_solver"] = False; facts["direct_solver"] = False; kw["solver_options"] = {"auxiliary_vectors": eye[:, [off[N - 1]]], "atol": 1e-6}
    if feature in ("custom-solver", "custom-solver+fd", "legacy-solver"):
        facts["custom_solver"] = True
        if feature == "legacy-solver":
            kw["solve_sylvester"] = lambda Y: Y; facts["legacy_solver"] = True
            if N != 2 and late is None: late = "legacy solver is defined for two blocks only"
        else: kw["solve_sylvester"] = lambda Y, index: Y
        if feature == "custom-solver+fd" and N >= 1 and "fully_diagonalize" not in kw:
            kw["fully_diagonalize"] = (0,); facts["fd"] = {"kind": "blocks", "blocks": [0]}
    return Hs, kw, facts, late, sizes

def classify(e):
    for cls in (NotImplementedError, ValueError, TypeError):      # NotImplementedError is a RuntimeError, not a ValueError
        if isinstance(e, cls): return cls.__name__
    return "other:" + type(e).__name__

def main(seed, ncases, driver, out):
    proc = subprocess.Popen([driver], stdin=subprocess.PIPE, stdout=subprocess.PIPE, text=True)
    failures = []; dist = {}; samples = []; evals = 0; distinct = set(); enum = enum_cases()
    for c in range(len(enum) + ncases):
        if skip(c): continue
        rnd = case_rnd(seed, c)
        cfg = dict(enum[c], feature=enum[c].get("feature", "offdiag")) if c < len(enum) else gen(rnd)
        try:
            H, kw, facts, late, sizes = build(cfg, rnd)
        except Exception as e:
            failures.append({"case": c, "kind": "harness-could-not-build-the-case", "config": cfg, "error": repr(e)[:200]}); continue
        proc.stdin.write(json.dumps(dict(facts, cmd="validate")) + "\n"); proc.stdin.flush()
        model = proc.stdout.readline().strip()
        if model.startswith("bad"):
            failures.append({"case": c, "kind": "driver-rejected", "detail": model, "facts": facts}); continue
        mclass = model.split(":")[0]
        key = f"{cfg.get('feature')} / {cfg['designation']} / {cfg['carrier']} / hermitian={cfg['hermitian']}"; dist[key] = dist.get(key, 0) + 1
        desc = {"case": c, "config": {k: v for k, v in cfg.items()}, "facts": facts, "model": model}
        evals += 1; distinct.add(json.dumps(facts, sort_keys=True))
        if len(samples) < 3: samples.append(desc)
        setup_err = first_err = None
        try:
            Ht, U, Ud = block_diagonalize(H, **kw)
        except Exception as e:
            setup_err = e
        got = "ok" if setup_err is None else classify(setup_err)
        if got != mclass:
            failures.append(dict(desc, kind="setup-outcome-differs", impl=got + ("" if setup_err is None else ": " + str(setup_err)[:120]))); continue
        if setup_err is not None: continue
        # accepted at set-up: evaluate; late classes must raise ValueError at first need, the others must be finite
        nb = len(sizes) if cfg["designation"] != "implicit" else len(sizes) - 1
        try:
            for n in (0, 1, 2):
                for i in range(nb):
                    for S in (Ht, U):
                        v = S[i, i, n]
                        if hasattr(v, "toarray"): v = v.toarray()
                        if isinstance(v, np.ndarray) and v.dtype != object and not np.all(np.isfinite(v)):
                            failures.append(dict(desc, kind="non-finite-output", order=n)); raise StopIteration
        except StopIteration:
            continue
        except Exception as e:
            first_err = e
        if late == "shared2" and first_err is None:
            try: U[0, 2, 2]
            except Exception as e: first_err = e
        if late == "shared-uncoupled" and first_err is None:      # the first element that needs the division by the vanishing energy difference
            try: U[0, 1, 2]
            except Exception as e: first_err = e
        if late is not None:
            if first_err is None: failures.append(dict(desc, kind="ill-posed-input-answered", expected=f"ValueError at first need ({late})"))
            elif not isinstance(first_err, ValueError): failures.append(dict(desc, kind="wrong-exception-type", error=type(first_err).__name__ + ": " + str(first_err)[:120]))
            elif late in ("shared2", "shared-uncoupled"):
                answered = []
                for (S, nm) in ((U, "U"), (Ud, "U_inv")):
                    for idx in (((0, 2, 2), (2, 0, 2)) if late == "shared2" else ((0, 1, 2), (1, 0, 2))):
                        try: S[idx]; answered.append(nm + str(list(idx)))
                        except Exception: pass
                if answered: failures.append(dict(desc, kind="ill-posed-input-answered-after-a-rejected-request", answered=answered))
            elif late == "shared":
                # the rejection must stay a rejection: the same and other requests that need the pair, made after the failure,
                # must fail again (a fresh computation would) — never return a value computed with resonant denominators dropped
                answered = []
                for (S, nm) in ((U, "U"), (Ht, "H_tilde"), (Ud, "U_inv")):
                    for idx in ((0, 1, 1), (1, 0, 1), (0, 0, 2), (1, 1, 2)):
                        if nm == "H_tilde" and idx[0] != idx[1]: continue
                        try: S[idx]; answered.append(nm + str(list(idx)))
                        except Exception: pass
                if answered: failures.append(dict(desc, kind="ill-posed-input-answered-after-a-rejected-request", answered=answered))
        elif first_err is not None:
            failures.append(dict(desc, kind="well-posed-input-raises", error=type(first_err).__name__ + ": " + str(first_err)[:160]))
    proc.stdin.close()
    json.dump({"evaluations": evals, "cases": ncases + len(enum), "enumerated": len(enum), "distinct_nontrivial": len(distinct), "failures": failures,
               "distribution": dist, "samples": samples}, open(out, "w"), default=str)

if __name__ == "__main__":
    main(int(sys.argv[1]), int(sys.argv[2]), sys.argv[3], sys.argv[4])
