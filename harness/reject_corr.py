"""C20 on the real code: each class of ill-posed input, embedded in an otherwise valid random problem, must raise the
listed exception no later than the first request that needs the ill-defined quantity; well-posed inputs must answer
with finite values."""
import os, sys; sys.path.insert(0, os.path.dirname(os.path.abspath(__file__)))
from common import case_rnd, skip
import sys, json, random, warnings
import numpy as np, sympy
from scipy import sparse
warnings.simplefilter("ignore")
from pymablock import block_diagonalize

def base(rnd):
    sizes = [rnd.randint(1, 2) for _ in range(rnd.randint(2, 3))]; d = sum(sizes)
    blocks = sum([[b] * s for b, s in enumerate(sizes)], [])
    E = [10 * blocks[a] + rnd.choice([0, 1, 2]) + 1 for a in range(d)]
    rng = np.random.default_rng(rnd.randrange(2**31))
    m = rng.integers(-3, 4, size=(d, d)).astype(float); H1 = m + m.T
    return sizes, d, blocks, E, H1

CLASSES = ["well-posed", "h0-not-block-diagonal", "h0-not-block-diagonal-sympy", "zero-diagonal", "shared-eigenvalue",
           "mask-eliminates-degenerate-pair", "asymmetric-mask-hermitian", "non-orthonormal-vectors",
           "well-posed-sympy-zero-block-fd", "nonhermitian-symbolic-term"]

def run(cls, rnd):
    sizes, d, blocks, E, H1 = base(rnd)
    H0 = np.diag(np.array(E, dtype=float)); kw = dict(subspace_indices=blocks); setup_err = first_err = None; want = None; when = None
    carrier = rnd.choice(["dense", "sparse"])
    conv = (lambda x: sparse.csr_array(x)) if carrier == "sparse" else (lambda x: x)
    H = [conv(H0), conv(H1)]
    if cls == "h0-not-block-diagonal":
        a = blocks.index(0); b = blocks.index(len(sizes) - 1); H0[a, b] = H0[b, a] = 0.5; H = [conv(H0), conv(H1)]; want, when = ValueError, "setup"
    elif cls == "h0-not-block-diagonal-sympy":
        a = blocks.index(0); b = blocks.index(len(sizes) - 1); S0 = sympy.Matrix(np.diag(E)); S0[a, b] = S0[b, a] = sympy.Rational(1, 2)
        H = [S0, sympy.Matrix(H1.astype(int))]; want, when = ValueError, "setup"
    elif cls == "zero-diagonal":
        H = [conv(np.zeros((d, d))), conv(H1)]; want, when = ValueError, "setup"
    elif cls == "shared-eigenvalue":
        a = blocks.index(0); b = blocks.index(1); H0[b, b] = H0[a, a]; H1[a, b] = H1[b, a] = 1.0; H = [conv(H0), conv(H1)]; want, when = ValueError, "first-need"
    elif cls == "mask-eliminates-degenerate-pair":
        big = max(range(len(sizes)), key=lambda i: sizes[i])
        if sizes[big] < 2: return None
        a = blocks.index(big); H0[a + 1, a + 1] = H0[a, a]; H = [conv(H0), conv(H1)]
        kw["fully_diagonalize"] = {big: np.array([[False, True], [True, False]])}; want, when = ValueError, "setup"
    elif cls == "asymmetric-mask-hermitian":
        big = max(range(len(sizes)), key=lambda i: sizes[i])
        if sizes[big] < 2: return None
        a = blocks.index(big); H0[a + 1, a + 1] = H0[a, a] + 1; H = [conv(H0), conv(H1)]
        kw["fully_diagonalize"] = {big: np.array([[False, True], [False, False]])}; want, when = ValueError, "setup"
    elif cls == "non-orthonormal-vectors":
        vecs = [np.eye(d)[:, [a for a in range(d) if blocks[a] == b]] for b in range(len(sizes))]
        vecs[0] = vecs[0] * 1.5; kw = dict(subspace_eigenvectors=vecs); H = [H0, H1]; want, when = ValueError, "setup"
    elif cls == "well-posed-sympy-zero-block-fd":
        E2 = [0 if blocks[a] == 0 else E[a] for a in range(d)]
        H = [sympy.Matrix(np.diag(E2)), sympy.Matrix(H1.astype(int))]; kw["fully_diagonalize"] = (0,)
    elif cls == "nonhermitian-symbolic-term":
        S1 = sympy.Matrix(H1.astype(int)); S1[0, d - 1] = S1[0, d - 1] + 1
        lam = sympy.Symbol("lambda", real=True)
        H = sympy.Matrix(np.diag(E)) + lam * S1; kw["symbols"] = [lam]; want, when = ValueError, "first-need"
    desc = {"class": cls, "sizes": sizes, "carrier": carrier, "energies": E}
    try:
        Ht, U, Ud = block_diagonalize(H, **kw)
    except Exception as e:
        setup_err = e
    if setup_err is None:
        try:
            for n in (0, 1, 2):
                for i in range(len(sizes)):
                    v = Ht[i, i, n]
                    if isinstance(v, np.ndarray) and not np.all(np.isfinite(v)): return dict(desc, kind="non-finite-output")
        except Exception as e:
            first_err = e
    got = setup_err or first_err
    if want is None:
        return dict(desc, kind="well-posed-input-raises", error=type(got).__name__ + ": " + str(got)[:100]) if got else "ok"
    if got is None: return dict(desc, kind="ill-posed-input-answered", expected=want.__name__ + " at " + when)
    if not isinstance(got, want): return dict(desc, kind="wrong-exception-type", error=type(got).__name__ + ": " + str(got)[:100])
    if when == "setup" and setup_err is None: return dict(desc, kind="raised-late", error=str(got)[:100])
    return "ok"

def main(seed, ncases, driver, out):
    rnd = random.Random(seed); failures = []; dist = {}; samples = []; evals = 0
    for c in range(ncases):
        if skip(c): continue
        rnd = case_rnd(seed, c)
        cls = CLASSES[c % len(CLASSES)]; r = run(cls, rnd)
        if r is None: continue
        evals += 1; dist[cls] = dist.get(cls, 0) + 1
        if r != "ok": failures.append(dict(r, case=c))
        elif len(samples) < 3: samples.append({"class": cls, "case": c})
    json.dump({"evaluations": evals, "cases": ncases, "distinct_nontrivial": evals, "failures": failures, "distribution": dist, "samples": samples}, open(out, "w"))

if __name__ == "__main__":
    main(int(sys.argv[1]), int(sys.argv[2]), sys.argv[3], sys.argv[4])
