"""C12 on the real code: laziness and causality of `block_diagonalize` observed through a logging Hamiltonian.

The Hamiltonian is a user-defined scalar `BlockSeries` whose `eval` logs every call (1-3 parameters, terms at arbitrary
multi-orders, absent terms = `zero`).  Checked, for explicit (indices / eigenvectors) and implicit (incomplete eigenvectors,
direct solver) set-ups, Hermitian and non-Hermitian algorithms, with and without `fully_diagonalize`:
  * defining the block diagonalization evaluates nothing but the zeroth-order term;
  * a request at multi-order n (scalar, list and zipped-list index expressions) evaluates Hamiltonian terms only at orders
    m <= n componentwise for some requested n — the cone the model theorem `Den.causal` states —, each at most once over the whole
    history (inputs are never deleted);
  * the returned values do not change when every term outside the cone is replaced by garbage, and the request still succeeds when
    those terms raise.
The Lean side of this check is the pair of theorems (`Den.causal`: the value at order n depends on inputs at orders <= n only, for every
program; `Machine.log_nodup`: no element is evaluated twice while cached); this harness ties them to the wiring of `block_diagonalize`."""
import os, sys; sys.path.insert(0, os.path.dirname(os.path.abspath(__file__)))
from common import case_rnd, skip
import json, itertools, warnings
import numpy as np
from scipy import sparse
warnings.simplefilter("ignore")
from pymablock import block_diagonalize
from pymablock.series import BlockSeries, zero, one

class Outside(Exception): pass

import sympy
from sympy.physics.quantum import Dagger
from sympy.physics.quantum.boson import BosonOp
_a, _b = BosonOp("a"), BosonOp("b")
BOSON_TERMS = [_a + Dagger(_a), _a**2 + Dagger(_a)**2, Dagger(_a) * _a, _b + Dagger(_b), Dagger(_a) * _b + Dagger(_b) * _a, Dagger(_b) * _b * (_a + Dagger(_a))]

def gen_boson(rnd):
    """second-quantized input given as a lazily evaluated scalar series (one or two boson modes, the second one possibly absent from H_0)"""
    k = rnd.choice([1, 2]); two = rnd.random() < 0.5
    H0 = sympy.Rational(rnd.randint(2, 5)) * Dagger(_a) * _a + (sympy.Rational(rnd.randint(6, 9), 2) * Dagger(_b) * _b if two else 0)
    pool = BOSON_TERMS if two else BOSON_TERMS[:3]
    terms = {}
    for n in itertools.product(range(4), repeat=k):
        if 0 < sum(n) <= 3 and rnd.random() < 0.6: terms[n] = sympy.Rational(rnd.randint(1, 3), rnd.choice([1, 2])) * rnd.choice(pool)
    reqs = []
    for _ in range(rnd.randint(1, 2)):
        o = tuple(rnd.randint(0, 2 if k == 1 else 1) for _ in range(k)); reqs.append({"series": rnd.choice(["H_tilde", "U", "U_inv"]), "item": o, "orders": [o]})
    return dict(k=k, N=1, sizes=[1], d=1, blocks=[0], herm=True, E=H0, terms=terms, mode="boson", fd=(), reqs=reqs)

def gen(rnd):
    if rnd.random() < 0.12: return gen_boson(rnd)
    k = rnd.choice([1, 2, 2, 3]); N = rnd.choice([2, 2, 3]); sizes = [rnd.randint(1, 2) for _ in range(N)]; d = sum(sizes)
    blocks = sum([[b] * s for b, s in enumerate(sizes)], [])
    herm = rnd.random() < 0.7
    rng = np.random.default_rng(rnd.randrange(2**31))
    E = np.array([5.0 * blocks[a] + rnd.choice([0, 1, 2]) + 0.25 * a for a in range(d)])
    terms = {}
    maxo = 3 if k == 1 else 2
    for n in itertools.product(range(maxo + 1), repeat=k):
        if 0 < sum(n) <= maxo + 1 and rnd.random() < 0.6:
            m = rng.integers(-2, 3, size=(d, d)).astype(float)
            terms[n] = (m + m.T) if herm else m
    mode = rnd.choice(["indices", "vectors", "implicit", "implicit", "blocked-series"]) if N >= 2 else "indices"
    fd = tuple(b for b in range(N - (1 if mode == "implicit" else 0)) if rnd.random() < 0.3)
    reqs = []
    for _ in range(rnd.randint(2, 4)):
        kind = rnd.choice(["scalar", "scalar", "list", "zipped"]) if k >= 2 else rnd.choice(["scalar", "scalar", "list"])
        name = rnd.choice(["H_tilde", "U", "U_inv"])
        if kind == "scalar": orders = [tuple(rnd.randint(0, maxo if k == 1 else 2) for _ in range(k))]; item = orders[0]
        elif kind == "list":
            ax = rnd.randrange(k); vals = sorted(set(rnd.randint(0, 2) for _ in range(2))); base = [rnd.randint(0, 1) for _ in range(k)]
            orders = [tuple(v if a == ax else base[a] for a in range(k)) for v in vals]
            item = tuple(vals if a == ax else base[a] for a in range(k))
        else:
            l1 = [2, 0]; l2 = [0, 2]; rest = [rnd.randint(0, 1) for _ in range(k - 2)]
            orders = [(2, 0, *rest), (0, 2, *rest)]; item = (l1, l2, *rest)
        reqs.append({"series": name, "item": item, "orders": orders})
    return dict(k=k, N=N, sizes=sizes, d=d, blocks=blocks, herm=herm, E=E, terms=terms, mode=mode, fd=fd, reqs=reqs)

def build(P, log, garbage_outside=None, raise_outside=None):
    k, d = P["k"], P["d"]; zero_n = (0,) * k
    if P["mode"] == "boson":
        def evb(*n):
            n = tuple(int(x) for x in n); log.append(n)
            if n == zero_n: return P["E"]
            cone = garbage_outside if garbage_outside is not None else raise_outside
            if cone is not None and not any(all(a <= b for a, b in zip(n, top)) for top in cone):
                if raise_outside is not None: raise Outside(str(n))
                return 7 * (_a + Dagger(_a)) + 3 * Dagger(_a) * _a
            return P["terms"].get(n, zero)
        return BlockSeries(eval=evb, shape=(), n_infinite=k, name="H"), {}
    H0 = sparse.csr_array(np.diag(P["E"])) if P["mode"] == "implicit" else np.diag(P["E"])
    def ev(*n):
        n = tuple(int(x) for x in n); log.append(n)
        if n == zero_n: return H0
        cone = garbage_outside if garbage_outside is not None else raise_outside
        if cone is not None and not any(all(a <= b for a, b in zip(n, top)) for top in cone):
            if raise_outside is not None: raise Outside(str(n))
            g = np.full((d, d), 7.0) + np.diag(np.arange(d)); return g + g.T if P["herm"] else g
        t = P["terms"].get(n)
        if t is None: return zero
        return sparse.csr_array(t) if P["mode"] == "implicit" else t
    if P["mode"] == "blocked-series":
        # a user-made series of pre-separated blocks: the library and the caller share one series (and its cache)
        offs = np.cumsum([0] + P["sizes"])
        def evb(i, j, *n):
            n = tuple(int(x) for x in n); log.append(("block", int(i), int(j)) + n)
            full = ev(*n); log.pop()                        # (the scalar logger is reused for the values; its own log entry is dropped)
            if full is zero: return zero
            blk = np.asarray(full)[offs[i]:offs[i + 1], offs[j]:offs[j + 1]]
            return zero if (any(n) or i != j) and not np.any(blk) else blk
        return BlockSeries(eval=evb, shape=(P["N"], P["N"]), n_infinite=k, name="H"), dict(hermitian=P["herm"], fully_diagonalize=P["fd"])
    H = BlockSeries(eval=ev, shape=(), n_infinite=k, name="H")
    eye = np.eye(d); off = np.cumsum([0] + P["sizes"]); vecs = [eye[:, off[b]:off[b + 1]] for b in range(P["N"])]
    kw = dict(hermitian=P["herm"], fully_diagonalize=P["fd"])
    if P["mode"] == "indices": kw["subspace_indices"] = P["blocks"]
    elif P["mode"] == "vectors": kw["subspace_eigenvectors"] = vecs
    else: kw["subspace_eigenvectors"] = vecs[:-1]
    return H, kw

def dense(v):
    if v is zero: return None
    if isinstance(v, sympy.Basic): return v
    if v is one: return np.array([[1.0 + 0j]])
    if hasattr(v, "toarray"): v = v.toarray()
    if hasattr(v, "matmat") and not isinstance(v, np.ndarray): v = v @ np.eye(v.shape[1])
    return np.asarray(v, dtype=complex)

def run(P, **variant):
    """returns (definition log, per-request logs, per-request values as lists of arrays over explicit blocks)"""
    log = []; H, kw = build(P, log, **variant)
    Ht, U, Ui = block_diagonalize(H, **kw); S = {"H_tilde": Ht, "U": U, "U_inv": Ui}
    deflog = list(log); per = []; vals = []
    if P["mode"] == "blocked-series":
        # the caller reads some terms of its own series between the definition and the requests: they must not be evaluated a second time later
        top = P["reqs"][0]["orders"][0]
        for (i, j) in [(0, 0), (P["N"] - 1, 0)]: H[(i, j) + tuple(top)]
    nb = P["N"] - (1 if P["mode"] == "implicit" else 0)
    if P["mode"] == "boson":
        for r in P["reqs"]:
            before = len(log); vals.append([dense(S[r["series"]][(0, 0) + tuple(r["item"])])]); per.append(log[before:])
        return deflog, per, vals, log
    for r in P["reqs"]:
        before = len(log); out = []
        for i in range(nb):
            for j in range(nb):
                res = S[r["series"]][(i, j) + tuple(r["item"])]
                if isinstance(res, np.ma.MaskedArray): out += [dense(x) if not m else None for x, m in zip(res.data.reshape(-1), np.ma.getmaskarray(res).reshape(-1))]
                else: out.append(dense(res))
        per.append(log[before:]); vals.append(out)
    if P["mode"] == "blocked-series":      # entries ("block", i, j, *n): the order part for the cone checks, the whole entry for at-most-once
        strip = lambda e: tuple(e[3:])
        return [strip(e) for e in deflog], [[strip(e) for e in lg] for lg in per], vals, log
    return deflog, per, vals, log

def same(a, b):
    if len(a) != len(b): return False
    for x, y in zip(a, b):
        if (x is None) != (y is None): return False
        if isinstance(x, sympy.Basic) or isinstance(y, sympy.Basic):
            if not (x == y or sympy.simplify((sympy.sympify(x) - sympy.sympify(y)).doit()) == 0): return False
            continue
        if x is not None and (x.shape != y.shape or np.abs(x - y).max() > 1e-9 * (1 + np.abs(y).max())): return False
    return True

def main(seed, ncases, driver, out):
    failures = []; dist = {}; samples = []; evals = 0; distinct = 0
    for c in range(ncases):
        if skip(c): continue
        rnd = case_rnd(seed, c); P = gen(rnd); zero_n = (0,) * P["k"]
        key = f"{P['mode']} k={P['k']} hermitian={P['herm']} fd={bool(P['fd'])}"; dist[key] = dist.get(key, 0) + 1
        desc = {"case": c, "mode": P["mode"], "k": P["k"], "sizes": P["sizes"], "hermitian": P["herm"], "fd": list(P["fd"]),
                "terms": sorted(map(list, P["terms"])), "H_0": str(P["E"]) if P["mode"] == "boson" else None, "requests": [{"series": r["series"], "item": [x if not isinstance(x, list) else x for x in r["item"]]} for r in P["reqs"]]}
        if len(samples) < 3: samples.append(desc)
        try:
            deflog, per, vals, full = run(P)
        except Exception as e:
            failures.append(dict(desc, kind="implementation-raises", error=type(e).__name__ + ": " + str(e)[:200])); continue
        evals += sum(len(v) for v in vals)
        if any(n != zero_n for n in deflog):
            failures.append(dict(desc, kind="definition-evaluates-perturbation-terms", evaluated=[list(n) for n in sorted(set(deflog))])); continue
        if len(full) != len(set(full)):
            dup = [list(n) for n in sorted(set(n for n in full if full.count(n) > 1))]; failures.append(dict(desc, kind="term-evaluated-twice", terms=dup)); continue
        bad = None; cone_all = []
        for r, lg in zip(P["reqs"], per):
            cone_all += r["orders"]
            outside = [list(n) for n in lg if not any(all(a <= b for a, b in zip(n, top)) for top in r["orders"])]
            if outside: bad = dict(desc, kind="request-evaluates-term-outside-its-cone", request=r["item"], outside=outside); break
        if bad: failures.append(bad); continue
        if any(any(n) for n in set(P["terms"]) if not any(all(a <= b for a, b in zip(n, top)) for top in cone_all)): distinct += 1
        try:
            _, _, vals_g, _ = run(P, garbage_outside=cone_all)
            if not all(same(a, b) for a, b in zip(vals, vals_g)):
                failures.append(dict(desc, kind="value-depends-on-a-term-outside-the-cone")); continue
            run(P, raise_outside=cone_all)
        except Outside as e:
            failures.append(dict(desc, kind="request-needs-a-term-outside-its-cone", term=str(e))); continue
        except Exception as e:
            failures.append(dict(desc, kind="implementation-raises", error=type(e).__name__ + ": " + str(e)[:200])); continue
    json.dump({"evaluations": evals, "cases": ncases, "distinct_nontrivial": distinct, "failures": failures, "distribution": dist, "samples": samples},
              open(out, "w"), default=str)

if __name__ == "__main__":
    main(int(sys.argv[1]), int(sys.argv[2]), sys.argv[3], sys.argv[4])
