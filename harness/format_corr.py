"""C14 on the real code: one Hamiltonian series passed in different formats / carriers / block designations must give
the same H_tilde, U, U† (compared as dense arrays with a tight tolerance)."""
import os, sys; sys.path.insert(0, os.path.dirname(os.path.abspath(__file__)))
from common import case_rnd, skip
import sys, json, random, itertools, warnings
import numpy as np, sympy
from scipy import sparse
warnings.simplefilter("ignore")
from pymablock import block_diagonalize
from pymablock.series import zero, one

def dense(v, shape):
    if v is zero: return np.zeros(shape, dtype=complex)
    if v is one: return np.eye(shape[0], dtype=complex)
    if isinstance(v, sympy.MatrixBase):
        # in the `symbols` path every order carries its monomial in the symbols: compare the coefficient
        return np.array(v.subs({s: 1 for s in v.free_symbols}).tolist(), dtype=complex)
    if hasattr(v, "toarray"): v = v.toarray()
    return np.asarray(v, dtype=complex)

FORMATS = ["list-dense", "dict-sparse", "dict-sympy", "sympy-symbols", "monomial-keys", "eigenvectors", "rotated-eigenbasis"]

def main(seed, ncases, driver, out):
    rnd = random.Random(seed); failures = []; dist = {}; samples = []; evals = 0; distinct = 0; worst = 0.0
    for c in range(ncases):
        if skip(c): continue
        rnd = case_rnd(seed, c)
        fmt = FORMATS[c % len(FORMATS)]
        N = rnd.randint(2, 3); sizes = [rnd.randint(1, 2) for _ in range(N)]; d = sum(sizes)
        blocks = sum([[b] * s for b, s in enumerate(sizes)], [])
        rng = np.random.default_rng(rnd.randrange(2**31))
        E = np.array([10 * blocks[a] + int(rng.integers(0, 3)) + 1 for a in range(d)], dtype=float)
        def herm():
            m = rng.integers(-3, 4, size=(d, d)).astype(complex) + 1j * rng.integers(-2, 3, size=(d, d)); return m + m.conj().T
        H0 = np.diag(E).astype(complex); H1 = herm(); H2 = herm()
        fd = tuple(b for b in range(N) if rnd.random() < 0.4)
        desc = {"format": fmt, "sizes": sizes, "fd": list(fd), "E": E.tolist()}
        dist[fmt] = dist.get(fmt, 0) + 1
        if len(samples) < 2: samples.append(desc)
        ref = block_diagonalize({(0, 0): H0, (1, 0): H1, (0, 1): H2}, subspace_indices=blocks, fully_diagonalize=fd)
        rot = None
        try:
            if fmt == "list-dense": got = block_diagonalize([H0, H1, H2], subspace_indices=blocks, fully_diagonalize=fd)
            elif fmt == "dict-sparse":
                got = block_diagonalize({(0, 0): sparse.csr_array(H0), (1, 0): sparse.csr_array(H1), (0, 1): sparse.csr_array(H2)}, subspace_indices=blocks, fully_diagonalize=fd)
            elif fmt == "dict-sympy":
                S = lambda m: sympy.Matrix([[sympy.Integer(int(z.real)) + sympy.I * int(z.imag) for z in row] for row in m])
                got = block_diagonalize({(0, 0): S(H0), (1, 0): S(H1), (0, 1): S(H2)}, subspace_indices=blocks, fully_diagonalize=fd)
            elif fmt in ("sympy-symbols", "monomial-keys"):
                S = lambda m: sympy.Matrix([[sympy.Integer(int(z.real)) + sympy.I * int(z.imag) for z in row] for row in m])
                a, b = sympy.symbols("a b", real=True)
                if fmt == "sympy-symbols": got = block_diagonalize(S(H0) + a * S(H1) + b * S(H2), symbols=[a, b], subspace_indices=blocks, fully_diagonalize=fd)
                else: got = block_diagonalize({sympy.Integer(1): S(H0), a: S(H1), b: S(H2)}, symbols=[a, b], subspace_indices=blocks, fully_diagonalize=fd)
            elif fmt == "eigenvectors":
                vecs = [np.eye(d)[:, [x for x in range(d) if blocks[x] == blk]] for blk in range(N)]
                got = block_diagonalize([H0, H1, H2], subspace_eigenvectors=vecs, fully_diagonalize=fd)
            else:   # the same operator in a rotated basis, designated by the rotated eigenvectors
                q, _ = np.linalg.qr(rng.normal(size=(d, d)) + 1j * rng.normal(size=(d, d)))
                R = lambda m: q @ m @ q.conj().T
                vecs = [q[:, [x for x in range(d) if blocks[x] == blk]] for blk in range(N)]
                got = block_diagonalize([R(H0), R(H1), R(H2)], subspace_eigenvectors=vecs, fully_diagonalize=fd)
            bad = None
            for k, (A, Bs) in enumerate(zip(ref, got)):
                for n in itertools.product(range(3), range(2)):
                    for i in range(N):
                        for j in range(N):
                            shape = (sizes[i], sizes[j]); x = dense(A[i, j, n[0], n[1]], shape); y = dense(Bs[i, j, n[0], n[1]], shape); evals += 1
                            err = float(np.abs(x - y).max()) if x.size else 0.0; worst = max(worst, err)
                            if err > 1e-9 * (1 + np.abs(x).max()): bad = bad or {"series": ["H_tilde", "U", "U†"][k], "block": [i, j], "order": list(n), "err": err}
            distinct += 1
            if bad: failures.append(dict(desc, kind="format-changes-result", **bad))
        except Exception as e:
            failures.append(dict(desc, kind="implementation-raises", error=type(e).__name__ + ": " + str(e)[:150]))
    json.dump({"evaluations": evals, "cases": ncases, "distinct_nontrivial": distinct, "failures": failures, "distribution": dist,
               "samples": samples, "worst_abs_error": worst}, open(out, "w"))

if __name__ == "__main__":
    main(int(sys.argv[1]), int(sys.argv[2]), sys.argv[3], sys.argv[4])
