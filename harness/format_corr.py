"""C14 (and the key/order bookkeeping of C13) on the real code: one two-parameter Hamiltonian series — with *mixed* orders — passed in
different formats / carriers / designations must give the same H_tilde, U, U† as the plain dict of dense arrays with order-tuple keys.

Formats (round-robin): dict of sparse arrays; dict of SymPy matrices; SymPy matrix polynomial in the symbols (Taylor-expanded by the code),
with the symbols given in either order; SymPy matrix with *analytic* (sin/exp) dependence whose Taylor coefficients are the series;
monomial keys with symbol names that stress the string sort (x10 vs x2); eigenvector matrices; the rotated operator with rotated
eigenvectors; nested block lists; a BlockSeries; interleaved subspace_indices (dense and SymPy).  Also `operator_to_BlockSeries` must
return exactly the blocks L_i^H A R_j.  Values are compared as dense arrays (SymPy results: the coefficient of the monomial)."""
import os, sys; sys.path.insert(0, os.path.dirname(os.path.abspath(__file__)))
from common import case_rnd, skip
import json, itertools, warnings
from math import factorial
import numpy as np, sympy
from scipy import sparse
warnings.simplefilter("ignore")
from pymablock import block_diagonalize, operator_to_BlockSeries
from pymablock.series import zero, one, BlockSeries

def dense(v, shape):
    if v is zero: return np.zeros(shape, dtype=complex)
    if v is one: return np.eye(shape[0], dtype=complex)
    if isinstance(v, sympy.MatrixBase):
        # in the `symbols` path every order carries its monomial in the symbols: compare the coefficient
        return np.array(v.subs({s: 1 for s in v.free_symbols}).tolist(), dtype=complex)
    if hasattr(v, "toarray"): v = v.toarray()
    return np.asarray(v, dtype=complex).reshape(shape)

FORMATS = ["dict-sparse", "dict-sympy", "sympy-symbols", "sympy-symbols-swapped", "sympy-analytic", "monomial-keys", "eigenvectors",
           "rotated-eigenbasis", "nested-blocks", "blockseries", "interleaved-indices", "interleaved-indices-sympy", "projection"]
ORDERS = [(0, 0), (1, 0), (0, 1), (1, 1), (2, 0), (0, 2), (2, 1), (1, 2)]

def S(m): return sympy.Matrix([[sympy.Integer(int(round(z.real))) + sympy.I * int(round(z.imag)) for z in row] for row in m])

def main(seed, ncases, driver, out):
    failures = []; dist = {}; samples = []; evals = 0; distinct = 0; worst = 0.0
    for c in range(ncases):
        if skip(c): continue
        rnd = case_rnd(seed, c)
        fmt = FORMATS[c % len(FORMATS)]
        N = rnd.randint(2, 3); sizes = [rnd.randint(1, 2) for _ in range(N)]
        if fmt == "dict-sparse": sizes[0] = 2
        d = sum(sizes)
        blocks = sum([[b] * s for b, s in enumerate(sizes)], [])
        rng = np.random.default_rng(rnd.randrange(2**31))
        E = np.array([10 * blocks[a] + int(rng.integers(0, 3)) + 1 for a in range(d)], dtype=float)
        def herm():
            m = rng.integers(-3, 4, size=(d, d)).astype(complex) + 1j * rng.integers(-2, 3, size=(d, d)); return m + m.conj().T
        terms = {(0, 0): np.diag(E).astype(complex), (1, 0): herm(), (0, 1): herm()}
        for n in [(1, 1), (2, 0), (0, 2), (2, 1)]:
            if rnd.random() < 0.6: terms[n] = herm()
        if (1, 1) not in terms and (2, 1) not in terms: terms[(1, 1)] = herm()                  # a mixed order is always present
        if fmt == "dict-sparse" and sizes[0] * sizes[1] >= 2:
            # all-sparse carriers: the coupling of the first two blocks has one stored entry in either first-order term, at different places (right-hand sides of the
            # solver with the same number of stored entries and other patterns)
            o0, o1 = 0, sizes[0]
            for n_, (ra, rb, val) in (((1, 0), (0, 0, 2 + 1j)), ((0, 1), (sizes[0] - 1, sizes[1] - 1, 3 - 2j))):
                terms[n_][o0:o0 + sizes[0], o1:o1 + sizes[1]] = 0; terms[n_][o1:o1 + sizes[1], o0:o0 + sizes[0]] = 0
                terms[n_][o0 + ra, o1 + rb] = val; terms[n_][o1 + rb, o0 + ra] = np.conj(val)
        fd = tuple(b for b in range(N) if rnd.random() < 0.4)
        desc = {"case": c, "format": fmt, "sizes": sizes, "fd": list(fd), "E": E.tolist(), "orders": sorted(map(list, terms))}
        dist[fmt] = dist.get(fmt, 0) + 1
        if len(samples) < 2: samples.append(desc)
        off = np.cumsum([0] + sizes); idx_of = [list(range(off[b], off[b + 1])) for b in range(N)]
        order_map = lambda n: n; kw = dict(subspace_indices=blocks, fully_diagonalize=fd)
        try:
            q = None
            if fmt in ("rotated-eigenbasis", "projection"):
                # a basis of the caller's: dense unitary, or sparse (2x2 rotations of pairs of states, some across blocks); the vectors as arrays or in a sparse format;
                # one perturbation diagonal in the caller's basis (an on-site potential), as an array or sparse
                if rnd.random() < 0.5: q, _ = np.linalg.qr(rng.normal(size=(d, d)) + 1j * rng.normal(size=(d, d)))
                else:
                    q = np.eye(d, dtype=complex); ps = list(range(d)); rnd.shuffle(ps)
                    for a_, b_ in zip(ps[0::2], ps[1::2]):
                        th = rng.uniform(0.3, 1.2); ph = np.exp(1j * rng.uniform(0, 6))
                        q[np.ix_([a_, b_], [a_, b_])] = np.array([[np.cos(th), -np.sin(th) * ph], [np.sin(th) * np.conj(ph), np.cos(th)]])
                    q = q[:, rng.permutation(d)] if False else q
                vform = rnd.choice(["array", "csr_array", "csr_matrix"]); desc["vectors"] = vform
                if rnd.random() < 0.7:
                    Dg = np.diag(rng.integers(-3, 4, size=d).astype(complex)); terms[(0, 1)] = q.conj().T @ Dg @ q; desc["site_diagonal_term"] = True
            ref = block_diagonalize(dict(terms), subspace_indices=blocks, fully_diagonalize=fd)
            if fmt == "analytic-dummy": pass
            if fmt == "sympy-analytic":
                # H(a, b) = H0 + sin(a) A + (exp(b) - 1) B + sin(a) exp(b) C : Taylor coefficients are known in closed form
                a, b = sympy.symbols("a b", real=True); A, B, C = herm(), herm(), herm()
                sin_c = lambda i: 0 if i % 2 == 0 else (-1) ** ((i - 1) // 2) / factorial(i)
                tt = {(0, 0): terms[(0, 0)]}
                for (i, j) in ORDERS[1:]:
                    t = np.zeros((d, d), dtype=complex)
                    if j == 0: t = t + sin_c(i) * A
                    if i == 0 and j > 0: t = t + B / factorial(j)
                    t = t + sin_c(i) / factorial(j) * C
                    if np.abs(t).max() > 0: tt[(i, j)] = t
                ref = block_diagonalize(tt, subspace_indices=blocks, fully_diagonalize=fd)
                got = block_diagonalize(S(terms[(0, 0)]) + sympy.sin(a) * S(A) + (sympy.exp(b) - 1) * S(B) + sympy.sin(a) * sympy.exp(b) * S(C), symbols=[a, b], **kw)
            elif fmt == "dict-sparse": got = block_diagonalize({n: sparse.csr_array(m) for n, m in terms.items()}, **kw)
            elif fmt == "dict-sympy": got = block_diagonalize({n: S(m) for n, m in terms.items()}, **kw)
            elif fmt in ("sympy-symbols", "sympy-symbols-swapped"):
                a, b = sympy.symbols("a b", real=True)
                expr = sum((a ** i * b ** j * S(m) for (i, j), m in terms.items()), sympy.zeros(d, d))
                if fmt == "sympy-symbols": got = block_diagonalize(expr, symbols=[a, b], **kw)
                else:
                    got = block_diagonalize(expr, symbols=[b, a], **kw); order_map = lambda n: (n[1], n[0])
                    if list(got[0].dimension_names) != [b, a]: failures.append(dict(desc, kind="dimension-names-differ-from-symbols", got=str(got[0].dimension_names)))
            elif fmt == "monomial-keys":
                x10, x2 = sympy.symbols("x10 x2", real=True)          # sorted as strings: "x10" < "x2"
                got = block_diagonalize({(x10 ** i * x2 ** j if (i, j) != (0, 0) else sympy.Integer(1)): m for (i, j), m in terms.items()}, **kw)
                # documented rule: the symbols are ordered by name as strings, so x10 is the first parameter and x2 the second
            elif fmt == "eigenvectors":
                got = block_diagonalize(dict(terms), subspace_eigenvectors=[np.eye(d)[:, ix] for ix in idx_of], fully_diagonalize=fd)
            elif fmt == "rotated-eigenbasis":
                vc = {"array": np.array, "csr_array": sparse.csr_array, "csr_matrix": sparse.csr_matrix}[vform]
                def carrier(n, m):
                    m = q @ m @ q.conj().T
                    if n == (0, 1) and desc.get("site_diagonal_term"): m = np.diag(np.diag(m))          # (exactly diagonal: rounding residues removed)
                    return sparse.csr_array(m) if vform != "array" and rnd.random() < 0.7 else m
                got = block_diagonalize({n: carrier(n, m) for n, m in terms.items()}, subspace_eigenvectors=[vc(q[:, ix]) for ix in idx_of], fully_diagonalize=fd)
            elif fmt == "nested-blocks":
                got = block_diagonalize({n: [[m[np.ix_(idx_of[i], idx_of[j])] for j in range(N)] for i in range(N)] for n, m in terms.items()}, fully_diagonalize=fd)
            elif fmt == "blockseries":
                got = block_diagonalize(BlockSeries(data=dict(terms), shape=(), n_infinite=2), **kw)
            elif fmt in ("interleaved-indices", "interleaved-indices-sympy"):
                labels = list(blocks); rnd.shuffle(labels); seen = {b: 0 for b in range(N)}; perm = []
                for b in labels: perm.append(idx_of[b][seen[b]]); seen[b] += 1
                conv = S if fmt.endswith("sympy") else (lambda m: m)
                got = block_diagonalize({n: conv(m[np.ix_(perm, perm)]) for n, m in terms.items()}, subspace_indices=labels, fully_diagonalize=fd)
            else:   # operator_to_BlockSeries returns exactly the blocks L_i^H A R_j
                vc = {"array": np.array, "csr_array": sparse.csr_array, "csr_matrix": sparse.csr_matrix}[vform]
                vec = [q[:, ix] for ix in idx_of]
                if desc.get("site_diagonal_term"): terms[(0, 1)] = Dg                                   # the operator itself is diagonal in the basis it is given in
                given = {n: (sparse.csr_array(m) if vform != "array" and rnd.random() < 0.7 else m) for n, m in terms.items()}
                op = operator_to_BlockSeries(given, subspace_eigenvectors=[vc(v_) for v_ in vec], hermitian=rnd.random() < 0.5)
                bad = None
                for n in terms:
                    for i in range(N):
                        for j in range(N):
                            x = dense(op[(i, j) + n], (sizes[i], sizes[j])); y = vec[i].conj().T @ terms[n] @ vec[j]; evals += 1
                            err = float(np.abs(x - y).max()); worst = max(worst, err)
                            if err > 1e-10 * (1 + np.abs(y).max()): bad = bad or {"block": [i, j], "order": list(n), "err": err}
                distinct += 1
                if bad: failures.append(dict(desc, kind="operator_to_BlockSeries-is-not-L^H-A-R", **bad))
                continue
            bad = None
            for k, (A_, Bs) in enumerate(zip(ref, got)):
                for n in ORDERS:
                    for i in range(N):
                        for j in range(N):
                            shape = (sizes[i], sizes[j]); x = dense(A_[(i, j) + n], shape); y = dense(Bs[(i, j) + order_map(n)], shape); evals += 1
                            err = float(np.abs(x - y).max()) if x.size else 0.0; worst = max(worst, err)
                            if err > 1e-9 * (1 + np.abs(x).max()): bad = bad or {"series": ["H_tilde", "U", "U†"][k], "block": [i, j], "order": list(n), "err": err}
            distinct += 1
            if bad: failures.append(dict(desc, kind="format-changes-result", **bad))
        except Exception as e:
            failures.append(dict(desc, kind="implementation-raises", error=type(e).__name__ + ": " + str(e)[:150]))
    json.dump({"evaluations": evals, "cases": ncases, "distinct_nontrivial": distinct, "failures": failures, "distribution": dist,
               "samples": samples, "worst_abs_error": worst}, open(out, "w"), default=str)

if __name__ == "__main__":
    main(int(sys.argv[1]), int(sys.argv[2]), sys.argv[3], sys.argv[4])
