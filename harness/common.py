"""Shared helpers of the correspondence harnesses: one PRNG per case derived from (run seed, case index), so that a
single case can be replayed exactly (`VERIF_ONLY_CASE=<index>`: every other case is skipped before anything runs)."""
import os, random

_only = os.environ.get("VERIF_ONLY_CASE", "")
ONLY = int(_only) if _only.strip() else None

def case_rnd(seed, c):
    return random.Random(int(seed) * 1000003 + int(c))

def skip(c):
    return ONLY is not None and c != ONLY
