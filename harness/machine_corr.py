"""Machine tie: real BlockSeries (series.py) vs the Lean state machine on random series networks,
request histories (scalar, slice, pop, contains) and fault plans."""
import os, sys; sys.path.insert(0, os.path.dirname(os.path.abspath(__file__)))
from common import case_rnd, skip
import sys, json, random, subprocess, warnings
warnings.simplefilter("ignore")
import numpy as np
from pymablock.series import BlockSeries, zero, PENDING

DRIVER = None

class BaseBoom(BaseException): pass
class UserBoom(Exception): pass

def vsum(vs):
    acc = zero
    for v in vs:
        if v is zero: continue
        acc = v if acc is zero else acc + v
    return acc

def user_sem(cb, args):
    s = vsum(args)
    return cb if s is zero else (cb + 1) * s + cb

def build(specs, faults, state):
    series = []
    def make_eval(s):
        sp = specs[s]
        def ev(i, n):
            state["log"].append((s, int(i), int(n)))
            i, n = int(i), int(n)
            if n == 0:
                return zero if sp["base"] is None else sp["base"] + i
            acc = []
            for d in sp["deps"]:
                if d["delta"] > n: continue
                tgt = ((1 - i) if d["flip"] else i, n - d["delta"])
                if d["guard"] and tgt not in series[d["s"]]: continue
                v = series[d["s"]][tgt]
                if d["pop"]: series[d["s"]].pop(tgt, None)
                acc.append(v)
            if sp["cb"] is not None:
                k = state["calls"]; state["calls"] += 1
                kind = faults.get(k)
                if kind == "runtime": raise (RuntimeError, RecursionError, NotImplementedError)[k % 3]("boom")     # RuntimeError and its subclasses
                if kind == "user": raise UserBoom()
                if kind == "base": raise BaseBoom()
                return vsum([user_sem(sp["cb"], acc), n])
            return vsum([n] + acc)
        return ev
    for s in range(len(specs)):
        series.append(BlockSeries(eval=make_eval(s), shape=(2,), n_infinite=1, name=f"S{s}"))
    return series

def show(v):
    return "zero" if v is zero else str(int(v))

def classify(e):
    if isinstance(e, RuntimeError):
        m = str(e)
        if "Infinite recursion" in m: return "E:recursion"
        if "Failed to evaluate" in m: return "E:wrapped"
        return "E:runtime"
    if isinstance(e, UserBoom): return "E:user0"
    if isinstance(e, BaseBoom): return "E:user1"
    if isinstance(e, IndexError): return "E:index"
    return "E:other:" + type(e).__name__

def run_impl(specs, faults, requests):
    state = {"calls": 0, "log": []}
    series = build(specs, faults, state)
    outs = []
    for r in requests:
        s, i, n = r["s"], r["i"], r["n"]
        try:
            if r["op"] == "get": outs.append(show(series[s][i, n]))
            elif r["op"] == "slice":
                res = series[s][i, 0:n]
                outs.append("[" + ",".join("zero" if (res.mask[k] if np.ndim(res.mask) else False) else show(res.data[k]) for k in range(len(res))) + "]")
            elif r["op"] == "box":
                res = series[s][:, 0:n]; flat = [(a, k) for a in range(2) for k in range(n)]
                outs.append("[" + ",".join("zero" if (res.mask[a, k] if np.ndim(res.mask) else False) else show(res.data[a, k]) for a, k in flat) + "]")
            elif r["op"] == "pop": series[s].pop((i, n), None); outs.append("ok")
            elif r["op"] == "contains": outs.append("true" if (i, n) in series[s] else "false")
        except BaseException as e:
            outs.append(classify(e))
    pend = sum(1 for ser in series for v in ser._data.values() if v is PENDING)
    log = ",".join(f"{s}:[{i}, {n}]" for (s, i, n) in state["log"])
    return "|".join(outs) + f"#pending={pend}#calls={state['calls']}#log={log}"

def gen_case(rnd):
    ns = rnd.randint(2, 5); specs = []
    for s in range(ns):
        deps = []
        for _ in range(rnd.randint(0, 3)):
            t = rnd.randrange(ns)
            delta = rnd.choice([1, 1, 2]) if t >= s else rnd.choice([0, 1, 2])
            if rnd.random() < 0.05: delta = 0   # occasionally ill-founded (recursion)
            deps.append({"s": t, "flip": rnd.random() < 0.3, "delta": delta, "guard": rnd.random() < 0.3, "pop": rnd.random() < 0.25})
        specs.append({"base": None if rnd.random() < 0.3 else rnd.randint(-2, 3), "deps": deps, "cb": rnd.choice([None, None, 0, 1, 2])})
    faults = {}
    for _ in range(rnd.choice([0, 0, 1, 2])): faults[rnd.randint(0, 12)] = rnd.choice(["runtime", "user", "base"])
    reqs = []
    for _ in range(rnd.randint(3, 12)):
        op = rnd.choice(["get"] * 5 + ["slice", "slice", "box", "box", "pop", "contains"])
        reqs.append({"op": op, "s": rnd.randrange(ns), "i": rnd.randrange(2), "n": rnd.randint(0, 4)})
    return specs, faults, reqs

def main(seed, ncases, driver, out):
    rnd = random.Random(seed)
    proc = subprocess.Popen([driver], stdin=subprocess.PIPE, stdout=subprocess.PIPE, text=True)
    failures = []; kinds = {}; samples = []; distinct = set(); evals = 0
    for c in range(ncases):
        if skip(c): continue
        rnd = case_rnd(seed, c)
        specs, faults, reqs = gen_case(rnd)
        impl = run_impl(specs, faults, reqs)
        case = {"series": specs, "faults": [{"at": k, "kind": v} for k, v in faults.items()], "requests": reqs}
        proc.stdin.write(json.dumps(dict(case, cmd="machine")) + "\n")
        proc.stdin.flush(); model = proc.stdout.readline().rstrip("\n")
        evals += len(reqs)
        for tok in impl.split("#")[0].split("|"):
            k = tok if tok.startswith("E:") else "value"; kinds[k] = kinds.get(k, 0) + 1
        if faults and len(reqs) >= 2: distinct.add(json.dumps(case, sort_keys=True))
        if len(samples) < 2: samples.append(case)
        if impl != model:
            # what the properties speak about: the values / errors handed to the caller and left-over in-flight markers.  The number and the
            # order of evaluations are finer observables: a difference there alone breaks the correspondence, not a property.
            obs = lambda t: t.split("#calls=")[0]
            only = obs(impl) == obs(model)
            failures.append({"case": c, "kind": "evaluation-log-differs" if only else "history-mismatch", "correspondence_only": only,
                             "input": case, "impl": impl, "model": model})
    proc.stdin.close()
    json.dump({"evaluations": evals, "cases": ncases, "distinct_nontrivial": len(distinct), "failures": failures,
               "distribution": kinds, "samples": samples}, open(out, "w"))

if __name__ == "__main__":
    main(int(sys.argv[1]), int(sys.argv[2]), sys.argv[3], sys.argv[4])
