"""C13 / C15 on the real code, as metamorphic relations between two runs of block_diagonalize on random accepted problems
(floating point, dense or sparse carriers, relative tolerance 1e-9; every 7th case exact through SymPy rationals):

C13  scale each parameter; permute parameters; merge two parameters into one; pad with a vanishing parameter; substitute lambda -> lambda^p
C15  relabel blocks; permute basis states (masks and designations follow); rotate the basis inside degenerate levels of H_0; complex
     conjugation; shift H_0 by c*1 (shifts only order zero of H_tilde); scale the whole Hamiltonian by s > 0 (U unchanged, H_tilde scaled);
     direct sum of two decoupled problems (result = direct sum of the results)
Every element of H_tilde, U, U† of the transformed run is compared with the transformed element of the base run, Hermitian and
non-Hermitian algorithm (the latter only on problems whose kept pairs are degenerate, where the shipped recurrences are right — finding D5)."""
import os, sys; sys.path.insert(0, os.path.dirname(os.path.abspath(__file__)))
from common import case_rnd, skip
import json, itertools, copy, warnings
from fractions import Fraction
from functools import reduce
import numpy as np, sympy
from scipy import sparse
warnings.simplefilter("ignore")
from pymablock import block_diagonalize
from pymablock.series import zero, one
import bd_corr as B

TRANSFORMS = ["scale", "permute-parameters", "merge-parameters", "pad-parameter", "power-substitution", "relabel-blocks", "permute-states",
              "degenerate-rotation", "conjugate", "shift", "scale-whole", "direct-sum"]

def to_np(m): return np.array([[complex(float(z[0]), float(z[1])) for z in row] for row in m])

def problem(rnd, hermitian, k=None):
    while True:
        force = None
        if rnd.random() < 0.2:      # shapes a random draw meets too rarely: an identically zero H_0 block in any position
            cands = [dd for dd in B.DESIGNED if dd["hermitian"] == hermitian and 0 in dd.get("E", [1]) and "variant" not in dd or dd.get("variant", {}).get("designation") == "indices" and dd["hermitian"] == hermitian and 0 in dd.get("E", [1])]
            if cands: force = {kk: vv for kk, vv in rnd.choice(cands).items() if kk != "variant"}
        P = B.gen_problem(rnd, hermitian, force)
        if k is not None and P["k"] != k: continue
        if not hermitian and B.d5_class(P): continue
        if max(abs(e[0]) for e in [P["terms"][(0,) * P["k"]][a][a] for a in range(P["d"])]) > 1000: continue   # keep the offset stratum out of the rotations
        return dict(d=P["d"], N=P["N"], k=P["k"], sizes=list(P["sizes"]), blocks=list(P["blocks"]), hermitian=hermitian,
                    terms={n: to_np(m) for n, m in P["terms"].items()}, fd=copy.deepcopy(P["fd_py"]), ser=B.ser_problem(P))

def run(Q, maxn, exact=False, carrier="dense", vectors=None):
    """all elements up to maxn, assembled into full d x d arrays"""
    d = Q["d"]; N = Q["N"]; blocks = Q["blocks"]
    idx = [[a for a in range(d) if blocks[a] == b] for b in range(N)]
    if exact:
        S = lambda m: sympy.Matrix(d, d, lambda a, b: sympy.nsimplify(m[a, b].real, rational=True) + sympy.I * sympy.nsimplify(m[a, b].imag, rational=True))
        H = {n: S(m) for n, m in Q["terms"].items()}
    else:
        real = all(np.abs(m.imag).max() == 0 for m in Q["terms"].values())
        conv = (lambda m: sparse.csr_array(m)) if carrier == "sparse" else (lambda m: m)
        H = {n: conv(m.real.copy() if real else m) for n, m in Q["terms"].items()}
        z0 = (0,) * len(next(iter(Q["terms"])))
        if Q.get("int_h0") and np.all(Q["terms"][z0] == np.rint(Q["terms"][z0].real)): H[z0] = conv(np.rint(Q["terms"][z0].real).astype(int))     # an integer-typed H_0
    kw = dict(subspace_eigenvectors=vectors) if vectors is not None else dict(subspace_indices=blocks)
    if Q.get("atol") is not None: kw["atol"] = Q["atol"]
    Ht, U, Ui = block_diagonalize(H, fully_diagonalize=Q["fd"], hermitian=Q["hermitian"], **kw)
    out = {}
    for name, S_ in (("H_tilde", Ht), ("U", U), ("U_inv", Ui)):
        for n in itertools.product(*[range(m + 1) for m in maxn]):
            full = np.zeros((d, d), dtype=complex)
            for i in range(N):
                for j in range(N):
                    v = S_[(i, j) + n]
                    if v is zero: continue
                    if v is one: v = np.eye(len(idx[i]))
                    if isinstance(v, sympy.MatrixBase): v = np.array(v.tolist(), dtype=complex)
                    if hasattr(v, "toarray"): v = v.toarray()
                    full[np.ix_(idx[i], idx[j])] = np.asarray(v, dtype=complex)
            out[(name, n)] = full
    return out

def implicit_relabel(rnd):
    """implicit mode, two or three explicit subspaces: relabelling the explicit subspaces relabels the blocks (the implicit one stays last)"""
    import implicit_corr as IC
    for _ in range(50):
        P = IC.gen(rnd)
        if len(P["parts"]) >= 2 and P["solver"] == "direct": break
    else: return None
    if rnd.random() < 0.5 and len(P["parts"][0]) >= 2: P["parts"] = [P["parts"][0][:1], P["parts"][0][1:]] + P["parts"][1:]     # three explicit subspaces
    parts = P["parts"]; nb = len(parts); N = P["N"]; R, L, herm = P["R"], P["L"], P["herm"]
    # (keep degenerate partners in one subspace)
    ev = P["ev"]
    for i in range(nb):
        for j in range(i + 1, nb):
            if any(abs(ev[a] - ev[b]) < 1e-9 for a in parts[i] for b in parts[j]): return None
    perm = list(range(nb)); rnd.shuffle(perm)
    if perm == list(range(nb)): perm = perm[1:] + perm[:1]
    H = {(0,): sparse.csr_array(P["H0"]), (1,): sparse.csr_array(P["H1"])}
    if P["H2"] is not None: H[(2,)] = sparse.csr_array(P["H2"])
    def basis(idx): return R[:, idx] if herm else (R[:, idx], L[:, idx])
    fd = tuple(b for b in range(nb) if rnd.random() < 0.3)
    A = block_diagonalize(H, subspace_eigenvectors=[basis(p) for p in parts], fully_diagonalize=fd, hermitian=herm)
    B = block_diagonalize(H, subspace_eigenvectors=[basis(parts[perm[i]]) for i in range(nb)], fully_diagonalize=tuple(i for i in range(nb) if perm[i] in fd), hermitian=herm)
    def dense(v, shape):
        if v is zero: return np.zeros(shape, dtype=complex)
        if v is one: return np.eye(shape[0], dtype=complex)
        if hasattr(v, "toarray"): v = v.toarray()
        if hasattr(v, "matmat") and not isinstance(v, np.ndarray): v = v @ np.eye(v.shape[1])
        return np.asarray(v, dtype=complex).reshape(shape)
    size = lambda b: N if b == nb else len(parts[b])
    lab = lambda i: perm[i] if i < nb else nb
    out_ = []
    for name, SA, SB in zip(("H_tilde", "U", "U_inv"), A, B):
        for n in range(0, 4):
            for i in range(nb + 1):
                for j in range(nb + 1):
                    if i == nb and j == nb: continue
                    if name == "H_tilde" and (i == nb or j == nb): continue
                    shape = (size(lab(i)), size(lab(j)))
                    out_.append((name, n, (i, j), dense(SB[(i, j, n)], shape), dense(SA[(lab(i), lab(j), n)], shape)))
    return dict(hermitian=herm, complex=P["cplx"], parts=parts, perm=perm, fd=list(fd), N=N), out_

def implicit_scale(rnd):
    """implicit mode (direct or KPM solver): the whole Hamiltonian in other energy units (times a power of two, `atol` in the same units) gives the
    same U and U_inv and H_tilde in those units"""
    import implicit_corr as IC
    P = IC.gen(rnd)
    kpm = P["herm"] and rnd.random() < 0.6
    # (the KPM solver reads its option `atol` also as an energy tolerance of the explicit part: units in which the levels stay far apart on that scale)
    c = 2.0 ** (rnd.choice([-13, -10, 12]) if kpm else rnd.choice([-30, -13, 17]))
    parts = P["parts"]; nb = len(parts); N = P["N"]; R, L, herm = P["R"], P["L"], P["herm"]
    def basis(idx): return R[:, idx] if herm else (R[:, idx], L[:, idx])
    kw = dict(subspace_eigenvectors=[basis(p) for p in parts], hermitian=herm)
    if kpm:
        kw.update(direct_solver=False, solver_options={"atol": 1e-6})
        if rnd.random() < 0.5: kw["solver_options"]["auxiliary_vectors"] = R[:, [P["dA"]]]
    else: kw["fully_diagonalize"] = P["fd"]
    def ham(f):
        H = {(0,): sparse.csr_array(P["H0"] * f), (1,): sparse.csr_array(P["H1"] * f)}
        if P["H2"] is not None: H[(2,)] = sparse.csr_array(P["H2"] * f)
        return H
    A = block_diagonalize(ham(1.0), **kw)
    B = block_diagonalize(ham(c), atol=1e-12 * c, **kw)
    def dense(v, shape):
        if v is zero: return np.zeros(shape, dtype=complex)
        if v is one: return np.eye(shape[0], dtype=complex)
        if hasattr(v, "toarray"): v = v.toarray()
        if hasattr(v, "matmat") and not isinstance(v, np.ndarray): v = v @ np.eye(v.shape[1])
        return np.asarray(v, dtype=complex).reshape(shape)
    size = lambda b: N if b == nb else len(parts[b])
    out_ = []
    for name, SA, SB in zip(("H_tilde", "U", "U_inv"), A, B):
        for n in range(0, 4):
            for i in range(nb + 1):
                for j in range(nb + 1):
                    if i == nb and j == nb: continue
                    if name == "H_tilde" and (i == nb or j == nb): continue
                    shape = (size(i), size(j))
                    out_.append((name, n, (i, j), dense(SB[(i, j, n)], shape) / (c if name == "H_tilde" else 1.0), dense(SA[(i, j, n)], shape)))
    return dict(hermitian=herm, complex=P["cplx"], parts=parts, N=N, solver="kpm" if kpm else "direct", factor=c), out_

def main(seed, ncases, driver, out):
    failures = []; dist = {}; samples = []; evals = 0; distinct = 0; worst = 0.0
    for c in range(ncases):
        if skip(c): continue
        rnd = case_rnd(seed, c); tr = TRANSFORMS[c % len(TRANSFORMS)]; exact = (c % 7 == 3)
        if c % 24 in (5, 17, 11):
            # implicit mode: the explicit subspaces in another order; the whole Hamiltonian in other units
            tname = "implicit-relabel" if c % 24 != 11 else "implicit-scale"
            try: res = implicit_relabel(rnd) if c % 24 != 11 else implicit_scale(rnd)
            except Exception as e:
                failures.append({"case": c, "transform": tname, "kind": "implementation-raises", "error": type(e).__name__ + ": " + str(e)[:200]}); continue
            if res is None: continue
            dsc, cmpl = res; dist[tname] = dist.get(tname, 0) + 1; bad = None
            for name, n, blk, got, want in cmpl:
                evals += 1; err = float(np.abs(got - want).max()) if got.size else 0.0; sc = 1 + (float(np.abs(want).max()) if want.size else 0); worst = max(worst, err / sc)
                if err > 1e-8 * sc: bad = bad or {"kind": "relation-fails", "series": name, "order": [n], "block": list(blk), "abs_err": err}
            distinct += 1
            if bad: failures.append(dict({"case": c, "transform": tname, "problem": dsc}, **bad))
            continue
        hermitian = rnd.random() < 0.75
        needk = 2 if tr in ("permute-parameters", "merge-parameters") else (1 if tr in ("pad-parameter", "power-substitution") else None)
        weak = tr == "scale" and not exact and c % 24 == 0
        if weak: needk = 1
        P = problem(rnd, hermitian, needk)
        if weak:
            # a weak first-order perturbation followed to fifth order: every order must still be c^n times the base, although its size c^n falls below any absolute threshold
            for _ in range(30):
                if any(sum(n) == 1 and np.abs(m).max() > 0 for n, m in P["terms"].items()) and P["d"] <= 5: break
                P = problem(rnd, hermitian, 1)
            P["terms"] = {n: m for n, m in P["terms"].items() if sum(n) <= 1}
        if tr == "shift":
            # prefer problems in which a fully diagonalised block holds distinct levels: there the shift must not change what counts as degenerate
            for _ in range(30):
                E0 = np.diag(P["terms"][(0,) * P["k"]]).real; sel = list(P["fd"]) if not isinstance(P["fd"], dict) else []
                if P["N"] == 1 and not isinstance(P["fd"], dict): sel = [0]
                cross = [abs(E0[a] - E0[b]) for a in range(P["d"]) for b in range(P["d"]) if P["blocks"][a] != P["blocks"][b]]
                big_ok = not cross or min(cross) / (np.abs(E0).max() + 2.0 ** 17) >= 3e-5      # (every other shift case insists on a problem that takes the large shift)
                if any(len(set(E0[a] for a in range(P["d"]) if P["blocks"][a] == b)) >= 2 for b in sel) and (big_ok or (c // len(TRANSFORMS)) % 2): break
                P = problem(rnd, hermitian, needk)
        if tr == "degenerate-rotation":
            # prefer problems in which a fully diagonalised block holds a degenerate level: only there does a rotation inside the level meet the masks
            for _ in range(40):
                E0 = np.diag(P["terms"][(0,) * P["k"]]).real; sel = list(P["fd"])
                if P["N"] == 1 and not len(P["fd"]): sel = [0]
                lv = lambda b: [E0[a] for a in range(P["d"]) if P["blocks"][a] == b]
                if any(len(lv(b)) > len(set(lv(b))) for b in sel): break
                P = problem(rnd, hermitian, needk)
        k, d, N = P["k"], P["d"], P["N"]
        maxn = (3,) if k == 1 else (2, 2)
        if exact: maxn = (2,) if k == 1 else (1, 1)
        if weak: maxn = (5,)
        if rnd.random() < 0.3: P["int_h0"] = True        # (the base problem only: the transformed one is built from float arrays)
        Q = copy.deepcopy(P); Q.pop("int_h0", None); maxq = maxn; vectors = None; rel = None; post = lambda name, m: m; post_n = None
        rng = np.random.default_rng(rnd.randrange(2**31)); carrier = rnd.choice(["dense", "sparse"])
        try:
            if tr == "scale":
                # weak perturbations too (powers of two: exact): order n is then of size c^n, far below any absolute threshold, and must still be c^n times the base
                cs = [rnd.choice([2.0, -1.0, 0.5, 3.0]) for _ in range(k)] if not weak else [rnd.choice([2.0 ** -13, -(2.0 ** -14), 2.0 ** -15])]; fac = lambda n: float(np.prod([cs[i] ** n[i] for i in range(k)]))
                Q["terms"] = {n: m * fac(n) for n, m in P["terms"].items()}
                rel = lambda base, name, n: base[(name, n)]
                post_n = lambda name, n, m: m / fac(n)                      # compared relative to the size of the order
            elif tr == "permute-parameters":
                Q["terms"] = {(n[1], n[0]): m for n, m in P["terms"].items()}
                rel = lambda base, name, n: base[(name, (n[1], n[0]))]
            elif tr == "merge-parameters":
                Q["k"] = 1; T = {}
                for n, m in P["terms"].items(): T[(sum(n),)] = T.get((sum(n),), 0) + m
                Q["terms"] = T; maxq = (maxn[0],)
                rel = lambda base, name, n: sum(base[(name, (a, n[0] - a))] for a in range(n[0] + 1))
            elif tr == "pad-parameter":
                Q["k"] = 2; Q["terms"] = {n + (0,): m for n, m in P["terms"].items()}; maxq = (maxn[0], 1)
                rel = lambda base, name, n: base[(name, (n[0],))] if n[1] == 0 else np.zeros((d, d))
            elif tr == "power-substitution":
                p_ = 2; Q["terms"] = {(n[0] * p_,): m for n, m in P["terms"].items()}; maxq = (min(2 * maxn[0], 4),)
                rel = lambda base, name, n: base[(name, (n[0] // p_,))] if n[0] % p_ == 0 else np.zeros((d, d))
            elif tr in ("relabel-blocks", "permute-states"):
                if tr == "relabel-blocks":
                    perm = list(range(N)); rnd.shuffle(perm); Q["blocks"] = [perm[b] for b in P["blocks"]]
                    if isinstance(P["fd"], dict): Q["fd"] = {perm[b]: v for b, v in P["fd"].items()}
                    else: Q["fd"] = tuple(sorted(perm[b] for b in P["fd"]))
                    rel = lambda base, name, n: base[(name, n)]                     # same states, only the names of the blocks change
                else:
                    sigma = list(range(d)); rnd.shuffle(sigma)                       # new position a holds old state sigma[a]
                    Q["terms"] = {n: m[np.ix_(sigma, sigma)] for n, m in P["terms"].items()}
                    Q["blocks"] = [P["blocks"][sigma[a]] for a in range(d)]
                    if isinstance(P["fd"], dict):
                        newfd = {}
                        for b, mask in P["fd"].items():
                            old = [a for a in range(d) if P["blocks"][a] == b]; new = [a for a in range(d) if Q["blocks"][a] == b]
                            pos = [old.index(sigma[a]) for a in new]; newfd[b] = np.asarray(mask)[np.ix_(pos, pos)]
                        Q["fd"] = newfd
                    rel = lambda base, name, n: base[(name, n)][np.ix_(sigma, sigma)]
            elif tr == "degenerate-rotation":
                if isinstance(P["fd"], dict): P["fd"] = tuple(P["fd"]); Q["fd"] = P["fd"]
                E = np.diag(P["terms"][(0,) * k]); R = np.eye(d, dtype=complex); cplx = any(np.abs(m.imag).max() > 0 for m in P["terms"].values())
                for b in range(N):
                    for e in set(E[a] for a in range(d) if P["blocks"][a] == b):
                        g = [a for a in range(d) if P["blocks"][a] == b and E[a] == e]
                        if len(g) >= 2:
                            z = rng.normal(size=(len(g), len(g))) + (1j * rng.normal(size=(len(g), len(g))) if cplx else 0); q, _ = np.linalg.qr(z); R[np.ix_(g, g)] = q
                if rnd.random() < 0.7 and not exact:
                    # the same rotation presented through eigenvector matrices of a dense, rotated H_0: the level is degenerate only up to rounding
                    z = rng.normal(size=(d, d)) + (1j * rng.normal(size=(d, d)) if cplx else 0); Qf, _ = np.linalg.qr(z); Wf = Qf @ R
                    Q["terms"] = {n: Qf @ m @ Qf.conj().T for n, m in P["terms"].items()}
                    vectors = [Wf[:, [a for a in range(d) if P["blocks"][a] == b]] for b in range(N)]; carrier = "dense"
                else:
                    Q["terms"] = {n: R.conj().T @ m @ R for n, m in P["terms"].items()}; Q["terms"][(0,) * k] = P["terms"][(0,) * k]
                rel = lambda base, name, n: R.conj().T @ base[(name, n)] @ R
            elif tr == "conjugate":
                Q["terms"] = {n: m.conj() for n, m in P["terms"].items()}
                rel = lambda base, name, n: base[(name, n)].conj()
            elif tr == "shift":
                cshift = rnd.choice([1.0, -2.5, 0.125, float(2 ** 17), float(2 ** 17), float(2 ** 18)]); z = (0,) * k
                if (c // len(TRANSFORMS)) % 2 == 0: cshift = float(2 ** 17)      # large shifts: level spacings far below 1e-5 of the level values
                E0s = np.diag(P["terms"][z]).real; gaps = [abs(E0s[a] - E0s[b]) for a in range(d) for b in range(d) if P["blocks"][a] != P["blocks"][b]]
                if gaps and min(gaps) / (np.abs(E0s).max() + abs(cshift)) < 3e-5: cshift = rnd.choice([1.0, -2.5, 0.125, 1024.0])     # keep gap / |energy| above the relative degeneracy threshold 1e-5
                Q["terms"] = dict(P["terms"]); Q["terms"][z] = P["terms"][z] + cshift * np.eye(d)
                if np.abs(np.diag(Q["terms"][z])).max() == 0: Q["terms"][z] = Q["terms"][z] + np.eye(d); cshift += 1
                rel = lambda base, name, n: base[(name, n)] + (cshift * np.eye(d) if name == "H_tilde" and not any(n) else 0)
            elif tr == "scale-whole":
                # any positive scale: other units (energies of 1e-20 or 1e+12) with the absolute tolerance given in the same units
                s_ = rnd.choice([2.0, 0.5, 4.0, 2.0 ** -70, 2.0 ** -40, 2.0 ** -30, 2.0 ** 40]); Q["terms"] = {n: s_ * m for n, m in P["terms"].items()}
                if not (0.1 < s_ < 10) and not exact: Q["atol"] = 1e-12 * s_
                if exact and not (0.1 < s_ < 10): s_ = 2.0; Q["terms"] = {n: s_ * m for n, m in P["terms"].items()}
                rel = lambda base, name, n: base[(name, n)]
                post = lambda name, m: m / s_ if name == "H_tilde" else m
            elif tr == "direct-sum":
                if not hermitian:       # dropping `fully_diagonalize` from a part could move it into the class of finding D5
                    hermitian = True; P = problem(rnd, True, k); d, N = P["d"], P["N"]; Q = copy.deepcopy(P)
                P2 = problem(rnd, hermitian, k)
                for X in (P, P2):      # a single block is fully diagonalised by default: make that explicit before merging
                    if X["N"] == 1 and not len(X["fd"]): X["fd"] = (0,)          # (an empty tuple or an empty dict of masks alike)
                if isinstance(P["fd"], dict) or isinstance(P2["fd"], dict): P["fd"] = tuple(P["fd"]); P2["fd"] = tuple(P2["fd"])
                M = max(N, P2["N"]); d2 = P2["d"]
                def dsum(a, b2):
                    out_ = np.zeros((d + d2, d + d2), dtype=complex); out_[:d, :d] = a; out_[d:, d:] = b2; return out_
                keys = set(P["terms"]) | set(P2["terms"])
                T = {n: dsum(P["terms"].get(n, np.zeros((d, d))), P2["terms"].get(n, np.zeros((d2, d2)))) for n in keys}
                # keep the two halves spectrally apart so that the merged blocks share no level they did not share before
                T[(0,) * k] = dsum(P["terms"][(0,) * k], P2["terms"][(0,) * k] + 37 * np.eye(d2))
                P2s = copy.deepcopy(P2); P2s["terms"][(0,) * k] = P2["terms"][(0,) * k] + 37 * np.eye(d2)
                # a merged block is fully diagonalised iff both parts are; a single-block part is fully diagonalised by default and cannot be switched off
                fa, fb = set(P["fd"]), set(P2["fd"])
                for b in range(min(N, P2["N"])):
                    if (b in fa) != (b in fb):
                        if b == 0 and (N == 1 or P2["N"] == 1): fa.add(0); fb.add(0)
                        else: fa.discard(b); fb.discard(b)
                P["fd"] = tuple(sorted(fa)); P2s["fd"] = tuple(sorted(fb)); fdsum = tuple(sorted(fa | fb))
                Q = dict(d=d + d2, N=M, k=k, sizes=None, blocks=P["blocks"] + P2["blocks"], hermitian=hermitian, terms=T, fd=fdsum, ser=P["ser"])
                base2 = run(P2s, maxn, carrier=carrier)
                rel = lambda base, name, n: dsum(base[(name, n)], base2[(name, n)])
            dist[tr + (" (exact)" if exact else "")] = dist.get(tr + (" (exact)" if exact else ""), 0) + 1
            desc = {"case": c, "transform": tr, "exact": exact, "hermitian": hermitian, "carrier": carrier, "problem": P["ser"]}
            if len(samples) < 2: samples.append(desc)
            base = run(P, maxn, exact=exact, carrier=carrier); other = run(Q, maxq, exact=exact, carrier=carrier, vectors=vectors)
        except Exception as e:
            failures.append({"case": c, "transform": tr, "kind": "implementation-raises", "error": type(e).__name__ + ": " + str(e)[:200], "problem": P["ser"]}); continue
        bad = None
        for (name, n), m in other.items():
            try: want = rel(base, name, n)
            except KeyError: continue
            m = post(name, m) if post_n is None else post_n(name, n, m)
            evals += 1; err = float(np.abs(m - want).max()); scale = 1 + float(np.abs(want).max()); worst = max(worst, err / scale)
            if err > 1e-9 * scale: bad = bad or {"kind": "relation-fails", "series": name, "order": list(n), "abs_err": err}
        distinct += 1
        if bad: failures.append(dict(desc, **bad))
    json.dump({"evaluations": evals, "cases": ncases, "distinct_nontrivial": distinct, "failures": failures, "distribution": dist, "samples": samples,
               "worst_abs_error": worst}, open(out, "w"), default=str)

if __name__ == "__main__":
    main(int(sys.argv[1]), int(sys.argv[2]), sys.argv[3], sys.argv[4])
