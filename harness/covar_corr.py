"""C13 / C15 on the real code, as metamorphic relations between two exact (SymPy rational) runs of block_diagonalize:
scale, permute / merge / pad parameters, shift of H_0, complex conjugation, relabelling of blocks."""
import os, sys; sys.path.insert(0, os.path.dirname(os.path.abspath(__file__)))
from common import case_rnd, skip
import sys, os, json, random, itertools, copy, warnings
from fractions import Fraction
warnings.simplefilter("ignore")
sys.path.insert(0, os.path.dirname(os.path.abspath(__file__)))
import bd_corr as B

Z = (Fraction(0), Fraction(0))
def zeros(d): return [[Z] * d for _ in range(d)]
def madd(A, Bm): return [[(x[0] + y[0], x[1] + y[1]) for x, y in zip(r1, r2)] for r1, r2 in zip(A, Bm)]
def mscale(A, c): return [[(x[0] * c, x[1] * c) for x in r] for r in A]
def mconj(A): return [[(x[0], -x[1]) for x in r] for r in A]

def outputs(P, maxn):
    reqs = [(nm, i, j, n) for n in itertools.product(*[range(m + 1) for m in maxn]) for nm in ("H_tilde", "U", "U†") for i in range(P["N"]) for j in range(P["N"])]
    impl = B.run_impl(P, reqs); d = P["d"]; whole = {}
    for r, a in zip(reqs, impl):
        if a[0] in ("exc", "err"): raise RuntimeError(str(a))
        key = (r[0], tuple(r[3]))
        whole[key] = madd(whole.get(key, zeros(d)), a[1]) if a[0] != "zero" else whole.get(key, zeros(d))
    return whole

TRANSFORMS = ["scale", "permute-parameters", "merge-parameters", "pad-parameter", "shift", "conjugate", "relabel-blocks"]

def main(seed, ncases, driver, out):
    rnd = random.Random(seed); failures = []; dist = {}; samples = []; evals = 0; distinct = 0
    for c in range(ncases):
        if skip(c): continue
        rnd = case_rnd(seed, c)
        tr = TRANSFORMS[c % len(TRANSFORMS)]
        while True:
            P = B.gen_problem(rnd, True)
            if tr in ("permute-parameters", "merge-parameters") and P["k"] != 2: continue
            if tr == "pad-parameter" and P["k"] != 1: continue
            break
        k = P["k"]; d = P["d"]; maxn = (2,) if k == 1 else (2, 2)
        Q = copy.deepcopy({x: P[x] for x in P if x != "_series"}); maxq = maxn; rel = None
        if tr == "scale":
            cs = [Fraction(rnd.choice([2, -1, 3]), rnd.choice([1, 2])) for _ in range(k)]
            fac = lambda n: Fraction(1) if not any(n) else __import__("functools").reduce(lambda x, y: x * y, [cs[i] ** n[i] for i in range(k)])
            Q["terms"] = {n: mscale(m, fac(n)) for n, m in P["terms"].items()}
            rel = lambda base, name, n: mscale(base[(name, n)], fac(n))
        elif tr == "permute-parameters":
            Q["terms"] = {(n[1], n[0]): m for n, m in P["terms"].items()}
            rel = lambda base, name, n: base[(name, (n[1], n[0]))]
        elif tr == "merge-parameters":
            Q["k"] = 1; T = {}
            for n, m in P["terms"].items(): T[(sum(n),)] = madd(T.get((sum(n),), zeros(d)), m)
            Q["terms"] = T; maxq = (2,)
            rel = lambda base, name, n: __import__("functools").reduce(madd, [base[(name, (a, n[0] - a))] for a in range(n[0] + 1)])
        elif tr == "pad-parameter":
            Q["k"] = 2; Q["terms"] = {n + (0,): m for n, m in P["terms"].items()}; maxq = (2, 1)
            rel = lambda base, name, n: base[(name, (n[0],))] if n[1] == 0 else zeros(d)
        elif tr == "shift":
            cshift = Fraction(rnd.choice([1, -2, 5]), rnd.choice([1, 3])); z = (0,) * k
            while all(P["terms"][z][a][a][0] + cshift == 0 for a in range(d)): cshift += 1      # H_0 = 0 is (rightly) rejected
            Q["terms"] = dict(P["terms"]); Q["terms"][z] = [[(x[0] + (cshift if a == b else 0), x[1]) for b, x in enumerate(r)] for a, r in enumerate(P["terms"][z])]
            def rel(base, name, n):
                m = base[(name, n)]
                if name == "H_tilde" and not any(n): m = [[(x[0] + (cshift if a == b else 0), x[1]) for b, x in enumerate(r)] for a, r in enumerate(m)]
                return m
        elif tr == "conjugate":
            Q["terms"] = {n: mconj(m) for n, m in P["terms"].items()}
            rel = lambda base, name, n: mconj(base[(name, n)])
        elif tr == "relabel-blocks":
            perm = list(range(P["N"])); rnd.shuffle(perm)
            Q["blocks"] = [perm[b] for b in P["blocks"]]
            inv = [perm.index(b) for b in range(P["N"])]
            Q["sizes"] = [P["sizes"][inv[b]] for b in range(P["N"])]
            # states are not moved, so block b of Q is a scattered set of states only if perm is not monotone: keep a
            # contiguous layout by permuting the states as well
            order = [a for b in range(P["N"]) for a in range(d) if Q["blocks"][a] == b]
            pm = lambda m: [[m[order[a]][order[b]] for b in range(d)] for a in range(d)]
            Q["terms"] = {n: pm(m) for n, m in P["terms"].items()}; Q["blocks"] = sorted(Q["blocks"])
            off = [0]
            for s_ in Q["sizes"]: off.append(off[-1] + s_)
            Q["off"] = off
            if P["fd"]["kind"] == "tuple":
                Q["fd"] = {"kind": "tuple", "blocks": sorted(perm[b] for b in P["fd"]["blocks"])}; Q["fd_py"] = tuple(Q["fd"]["blocks"])
            elif P["fd"]["kind"] == "dict":
                Q["fd_py"] = {perm[b]: v for b, v in P["fd_py"].items()}
                Q["fd"] = {"kind": "dict", "masks": []}
            rel = lambda base, name, n: pm(base[(name, n)])
        key = tr; dist[key] = dist.get(key, 0) + 1
        desc = {"transform": tr, "problem": B.ser_problem(P)}
        if len(samples) < 2: samples.append(desc)
        try:
            base = outputs(P, maxn); other = outputs(Q, maxq)
        except Exception as e:
            failures.append(dict(desc, kind="implementation-raises", error=type(e).__name__ + ": " + str(e)[:150])); continue
        bad = None
        for (name, n), m in other.items():
            evals += 1
            try: want = rel(base, name, n)
            except KeyError: continue
            if m != want: bad = bad or {"kind": "relation-fails", "series": name, "order": list(n)}
        distinct += 1
        if bad: failures.append(dict(desc, **bad))
    json.dump({"evaluations": evals, "cases": ncases, "distinct_nontrivial": distinct, "failures": failures, "distribution": dist, "samples": samples}, open(out, "w"))

if __name__ == "__main__":
    main(int(sys.argv[1]), int(sys.argv[2]), sys.argv[3], sys.argv[4])
