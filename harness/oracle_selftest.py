import sys, random, itertools, copy
from fractions import Fraction
import os; sys.path.insert(0, os.path.dirname(os.path.abspath(__file__)))
import bd_corr as B
rnd = random.Random(11); hits = {"C02": 0, "C03": 0, "clean": 0}; n_cases = 0
while n_cases < 25:
    P = B.gen_problem(rnd, True)
    if P["fd"]["kind"] == "none" and P["N"] > 1: continue
    maxn = (3,) if P["k"] == 1 else (2, 1)
    reqs = [(nm, i, j, n) for n in itertools.product(*[range(m + 1) for m in maxn]) for nm in ("H_tilde", "U", "U†") for i in range(P["N"]) for j in range(P["N"])]
    impl = B.run_impl(P, reqs)
    if B.oracle(P, reqs, impl, maxn) is None: hits["clean"] += 1
    d = P["d"]
    elim = [(a, b) for a in range(d) for b in range(d) if a != b and P["blocks"][a] == P["blocks"][b] and B.eliminated(P, a, b)]
    kept = [(a, b) for a in range(d) for b in range(d) if a != b and P["blocks"][a] == P["blocks"][b] and not B.eliminated(P, a, b)]
    n1 = tuple([1] + [0] * (P["k"] - 1))
    def tamper(name, a, b, delta):
        out = []
        for r, v in zip(reqs, impl):
            if r[0] == name and tuple(r[3]) == n1 and r[1] == P["blocks"][a] and r[2] == P["blocks"][b]:
                full = copy.deepcopy(v[1]) if v[0] != "zero" else [[(Fraction(0), Fraction(0))] * d for _ in range(d)]
                full[a][b] = (full[a][b][0] + delta, full[a][b][1]); v = ("val", full)
            out.append(v)
        return out
    if elim:
        a, b = elim[0]; o = B.oracle(P, reqs, tamper("H_tilde", a, b, Fraction(1)), maxn); hits["C02"] += int(o is not None and "C02" in o["all"])
    if kept:
        a, b = kept[0]; o = B.oracle(P, reqs, tamper("U", a, b, Fraction(1)), maxn); hits["C03"] += int(o is not None and "C03" in o["all"])
    n_cases += 1
    hits.setdefault("with_elim", 0); hits["with_elim"] += bool(elim); hits.setdefault("with_kept", 0); hits["with_kept"] += bool(kept)
print(hits)
