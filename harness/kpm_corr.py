"""C16 (KPM part) on the real code: `kpm.greens_function` against the Lean model of its loop control (`Kpm.greens`, driver command `kpm`)
and against the defining equation.

A case: a random symmetric H rescaled into [-1, 1], an energy inside (-1, 1) away from the spectrum (or on top of an eigenvalue whose
eigenvector is projected out of the right-hand side — what the hybrid solver does), a vector, an accuracy `atol` and a `max_moments`.
The residues of the solutions with 10, 40, 160, ... moments are recomputed outside the loop (same formulas) and handed to the model, which
says how many moments the returned solution has and whether the convergence warning is issued.  Compared: the returned solution (must equal
the solution with that many moments), the warning, and — independently of the model — that without a warning the returned x satisfies
|(E - H) x - v| <= atol; for every `max_moments >= 1` a solution comes back (with the warning when the accuracy was not reached)."""
import os, sys; sys.path.insert(0, os.path.dirname(os.path.abspath(__file__)))
from common import case_rnd, skip
import json, subprocess, warnings
from fractions import Fraction
import numpy as np
from pymablock.kpm import greens_function, kpm_vectors, jackson_kernel

def sol_with(h, e, v, m):
    prefactor = -2 / np.sqrt(1 - e**2)
    coef = prefactor * np.sin(np.arange(m) * np.arccos(e)); coef[0] /= 2; coef *= jackson_kernel(m)
    return sum(vec * c for c, vec in zip(coef, kpm_vectors(h, v)))

def main(seed, ncases, driver, out):
    proc = subprocess.Popen([driver], stdin=subprocess.PIPE, stdout=subprocess.PIPE, text=True)
    failures = []; dist = {}; samples = []; evals = 0; distinct = 0
    for c in range(ncases):
        if skip(c): continue
        rnd = case_rnd(seed, c); rng = np.random.default_rng(rnd.randrange(2**31))
        n = rnd.randint(3, 8); m = rng.normal(size=(n, n)); h = (m + m.T) / 2
        ev, q = np.linalg.eigh(h); h = h / (1.15 * np.abs(ev).max()); ev = ev / (1.15 * np.abs(ev).max())
        on_level = rnd.random() < 0.3
        v = rng.normal(size=n)
        if on_level:
            k0 = rnd.randrange(n); e = float(ev[k0]); v = v - q[:, k0] * (q[:, k0] @ v)
        else:
            gaps = np.diff(ev); k0 = int(np.argmax(gaps)); e = float(ev[k0] + gaps[k0] / 2)
        atol = 10.0 ** rnd.choice([-2, -3, -4, -6]); maxm = rnd.choice([5, 9, 10, 39, 40, 100, 700, 3000, 10000])
        desc = {"case": c, "n": n, "energy": e, "on_level": on_level, "atol": atol, "max_moments": maxm}
        key = f"atol={atol} max_moments={maxm} on_level={on_level}"; dist[key] = dist.get(key, 0) + 1
        if len(samples) < 3: samples.append(desc)
        ms = []; mm = min(10, maxm)          # (the expansion starts with min(10, max_moments) moments)
        while mm <= maxm: ms.append(mm); mm *= 4
        sols = {mm: sol_with(h, e, v, mm) for mm in ms}
        res = {mm: float(np.linalg.norm((h @ s - e * s) + v)) for mm, s in sols.items()}
        req = {"cmd": "kpm", "atol": str(Fraction(atol)), "max_moments": maxm,
               "residues": [{"m": mm, "r": str(Fraction(r))} for mm, r in res.items()]}
        proc.stdin.write(json.dumps(req) + "\n"); proc.stdin.flush(); model = proc.stdout.readline().split()
        evals += 1; distinct += 1
        with warnings.catch_warnings(record=True) as w:
            warnings.simplefilter("always")
            try:
                x = greens_function(h, e, v, atol, maxm); err = None
            except UnboundLocalError as ex: x = None; err = "unbound"
            except Exception as ex: x = None; err = type(ex).__name__ + ": " + str(ex)[:100]
        warned = any(issubclass(x_.category, RuntimeWarning) and "did not converge" in str(x_.message) for x_ in w)
        if err == "unbound":
            failures.append(dict(desc, kind="implementation-raises-UnboundLocalError: neither a solution nor a warning", model=model)); continue
        if err is not None: failures.append(dict(desc, kind="implementation-raises", error=err)); continue
        if model[0] == "unbound": failures.append(dict(desc, kind="model-says-unbound-but-implementation-answers", correspondence_only=True)); continue
        k = int(model[0])
        if warned != (model[1] == "true"): failures.append(dict(desc, kind="warning-differs", correspondence_only=True, impl=warned, model=model))
        elif not np.array_equal(x, sols[k]):
            # (the loop control of the model and of the code differ: a finer observable than the property, which only asks for the accuracy or the warning)
            which = [mm for mm, s in sols.items() if np.array_equal(x, s)]
            failures.append(dict(desc, kind="returned-solution-has-other-number-of-moments", correspondence_only=True, model=k, impl=which))
        if not (isinstance(x, np.ndarray) and x.shape == v.shape and np.all(np.isfinite(x))):
            failures.append(dict(desc, kind="no-finite-solution-returned", got=str(x)[:80])); continue
        true_res = float(np.linalg.norm((e * np.eye(n) - h) @ x - v))
        if not warned and true_res > atol * (1 + 1e-9):
            failures.append(dict(desc, kind="accuracy-not-reached-without-warning", residual=true_res))
    proc.stdin.close()
    json.dump({"evaluations": evals, "cases": ncases, "distinct_nontrivial": distinct, "failures": failures, "distribution": dist, "samples": samples}, open(out, "w"))

if __name__ == "__main__":
    main(int(sys.argv[1]), int(sys.argv[2]), sys.argv[3], sys.argv[4])
