"""C07 on the real code: second-quantised block_diagonalize (operator-valued H_tilde, U) vs exact block diagonalisation of
the matrices on a truncated Fock space (unnormalised basis, inverse-based gauge), compared away from the truncation edge."""
import os, sys; sys.path.insert(0, os.path.dirname(os.path.abspath(__file__)))
from common import case_rnd, skip
import sys, os, json, random, itertools, warnings
import numpy as np, sympy
warnings.simplefilter("ignore")
ROOTP = os.path.dirname(os.path.dirname(os.path.abspath(__file__))); sys.path.insert(0, ROOTP)
from sympy import Rational as Q
from sympy.physics.quantum import Dagger
from sympy.physics.quantum.boson import BosonOp
from sympy.physics.quantum.fermion import FermionOp
from sympy.physics.quantum import pauli
from pymablock import block_diagonalize
from pymablock.series import zero, one
from pymablock.number_ordered_form import NumberOrderedForm as NOF, NumberOperator, LadderOp, _number_operator_to_placeholder
from fock import apply_gen
from ref2 import reference

def nof_apply(modes, nof, ops, placeholders, st):
    """apply a NumberOrderedForm to a basis state (unnormalised basis); complex coefficients allowed"""
    out = {}
    for powers, coeff in nof.args[1]:
        powers = [int(p) for p in powers]; vec = {st: 1}
        for k in range(len(ops)):
            if powers[k] > 0:
                for _ in range(powers[k]): vec = apply_gen(modes, k, False, vec)
        new = {}
        for s_, a in vec.items():
            val = coeff.xreplace({placeholders[k]: sympy.Integer(s_[k]) for k in range(len(ops))})
            val = val.subs({sym: SYMVALS.get(sym.name, 1) for sym in val.free_symbols})
            val = complex(sympy.N(val, 30))
            if val != 0: new[s_] = a * val
        vec = new
        for k in reversed(range(len(ops))):
            if powers[k] < 0:
                for _ in range(-powers[k]): vec = apply_gen(modes, k, True, vec)
        for s_, a in vec.items(): out[s_] = out.get(s_, 0) + a
    return {s_: a for s_, a in out.items() if a != 0}

# symbolic parameters of a Hamiltonian (not perturbative ones) and the values they get when matrix elements are taken; `g` is a complex symbol
SYMVALS = {"g": sympy.Rational(3, 10) + sympy.Rational(2, 5) * sympy.I, "w": sympy.Rational(5, 2)}
G = sympy.Symbol("g"); W_ = sympy.Symbol("w", positive=True)
ORDER = {'b': 0, 'l': 1, 's': 2, 'f': 3}; KIND = {'b': BosonOp, 'l': LadderOp, 's': pauli.SigmaMinus, 'f': FermionOp}
SYSTEMS = [
 ("anharmonic boson", [('b', 'a')], lambda d: 2 * Dagger(d['a']) * d['a'] + Q(1, 3) * (Dagger(d['a']) * d['a'])**2,
  lambda d: d['a'] + Dagger(d['a']) + Dagger(d['a'])**2 + d['a']**2),
 ("three fermions with pairing", [('f', 'c'), ('f', 'd'), ('f', 'e')],
  lambda d: Dagger(d['c']) * d['c'] + 3 * Dagger(d['d']) * d['d'] + 7 * Dagger(d['e']) * d['e'],
  lambda d: d['c'] * d['d'] + Dagger(d['d']) * Dagger(d['c']) + d['d'] * d['e'] + Dagger(d['e']) * Dagger(d['d']) + Dagger(d['c']) * d['e'] + Dagger(d['e']) * d['c']),
 ("Rabi", [('b', 'a'), ('s', 's')], lambda d: 3 * Dagger(d['a']) * d['a'] + Q(1, 2) * pauli.SigmaZ('s'),
  lambda d: (d['a'] + Dagger(d['a'])) * pauli.SigmaX('s')),
 ("boson + fermion hopping", [('b', 'a'), ('f', 'c')], lambda d: 2 * Dagger(d['a']) * d['a'] + 5 * Dagger(d['c']) * d['c'],
  lambda d: Dagger(d['a']) * d['c'] + Dagger(d['c']) * d['a'] + d['a'] + Dagger(d['a'])),
 ("spin with transverse drive + two fermions with hopping, number couplings in H_0", [('s', 's'), ('f', 'f'), ('f', 'g')],
  lambda d: Q(3, 2) * pauli.SigmaZ('s') + 2 * Dagger(d['f']) * d['f'] + 5 * Dagger(d['g']) * d['g']
            + Q(1, 3) * pauli.SigmaZ('s') * Dagger(d['f']) * d['f'] + Q(1, 7) * Dagger(d['f']) * d['f'] * Dagger(d['g']) * d['g'],
  lambda d: pauli.SigmaX('s') + Dagger(d['f']) * d['g'] + Dagger(d['g']) * d['f'] + pauli.SigmaX('s') * (Dagger(d['f']) * d['g'] + Dagger(d['g']) * d['f'])),
 ("boson with a complex drive", [('b', 'a')], lambda d: 2 * Dagger(d['a']) * d['a'] + Q(1, 3) * (Dagger(d['a']) * d['a'])**2,
  lambda d: (1 + sympy.I) * d['a'] + (1 - sympy.I) * Dagger(d['a'])),
 ("matrix-valued: equal diagonal entries, non-self-adjoint coupling entry", [('b', 'a')],
  lambda d: sympy.Matrix([[2 * Dagger(d['a']) * d['a'] + Q(1, 3) * (Dagger(d['a']) * d['a'])**2, 0], [0, 2 * Dagger(d['a']) * d['a'] + Q(1, 3) * (Dagger(d['a']) * d['a'])**2]]),
  lambda d: sympy.Matrix([[0, Q(1, 2) * d['a'] + Q(1, 3) * Dagger(d['a'])], [Q(1, 2) * Dagger(d['a']) + Q(1, 3) * d['a'], 0]])),
 ("symbolic: complex coupling constant g (a plain Symbol) and a symbolic frequency", [('b', 'a')],
  lambda d: W_ * Dagger(d['a']) * d['a'] + Q(1, 3) * (Dagger(d['a']) * d['a'])**2,
  lambda d: G * d['a'] + sympy.conjugate(G) * Dagger(d['a']) + G**2 * d['a']**2 + sympy.conjugate(G)**2 * Dagger(d['a'])**2),
 ("matrix-valued: dispersive shift (the levels depend differently on N), number-changing terms with the same shift on both diagonal entries", [('b', 'a')],
  lambda d: sympy.Matrix([[2 * Dagger(d['a']) * d['a'] + Q(1, 3) * Dagger(d['a']) * d['a'] + Q(1, 2), 0], [0, 2 * Dagger(d['a']) * d['a'] - Q(1, 3) * Dagger(d['a']) * d['a']]]),
  lambda d: sympy.Matrix([[d['a'] + Dagger(d['a']), Q(1, 2)], [Q(1, 2), -(d['a'] + Dagger(d['a']))]])),
 ("Floquet-like: ladder mode + spin + fermion, a drive whose strength depends on the fermion occupation, a longitudinal drive", [('l', 'm'), ('s', 's'), ('f', 'c')],
  lambda d: 2 * NumberOperator(d['m']) + Q(3, 2) * Dagger(d['s']) * d['s'] + 5 * Dagger(d['c']) * d['c'] + Q(1, 7) * Dagger(d['s']) * d['s'] * Dagger(d['c']) * d['c'],
  lambda d: (1 + Dagger(d['c']) * d['c'] / 2) * (Dagger(d['s']) * d['m'] + d['s'] * Dagger(d['m'])) + Q(1, 3) * (2 * Dagger(d['s']) * d['s'] - 1) * (d['m'] + Dagger(d['m']))),
 ("matrix-valued: different diagonal entries, two subspaces", [('b', 'a')],
  lambda d: sympy.Matrix([[2 * Dagger(d['a']) * d['a'], 0], [0, 2 * Dagger(d['a']) * d['a'] + Q(7, 3)]]),
  lambda d: sympy.Matrix([[d['a'] + Dagger(d['a']), 1 + Dagger(d['a'])], [1 + d['a'], d['a'] + Dagger(d['a'])]])),
 ("charge qubit: a ladder mode whose number enters quadratically (charging energy with an offset charge), a spectator spin", [('l', 'm'), ('s', 's')],
  lambda d: (NumberOperator(d['m']) - Q(1, 3))**2 + Q(3, 2) * Dagger(d['s']) * d['s'],
  lambda d: (d['m'] + Dagger(d['m'])) * (1 + Dagger(d['s']) * d['s']) + Q(1, 3) * pauli.SigmaX('s')),
]

PRIMES = [2, 3, 5, 7, 11, 13]
def random_system(rnd):
    """a generated system: 1-3 modes of mixed statistics, H_0 a polynomial in the number operators with rational coefficients (anharmonic, with
    number-number couplings), the perturbation W + W^dagger for a random polynomial W of degree <= 3 in the generators (complex coefficients at times)"""
    kinds = rnd.choice([['b'], ['b', 'b'], ['b', 'f'], ['f', 'f'], ['b', 's'], ['s', 'f'], ['l'], ['l', 'f'], ['f', 'f', 'f'], ['b', 'f', 'f'], ['s', 's'], ['l', 'b'],
                        ['l', 's', 'f'], ['l', 's'], ['l', 'f', 'f'], ['b', 's', 'f']])
    names = ['a', 'b', 'c', 'd']; spec = [(k, names[i]) for i, k in enumerate(kinds)]
    cplx = rnd.random() < 0.3
    w = rnd.sample(PRIMES, len(spec)); al = [Q(1, rnd.choice([3, 7, 11])) for _ in spec]; cross = Q(1, rnd.choice([5, 13, 17])) if rnd.random() < 0.6 else 0
    cross2 = Q(1, rnd.choice([23, 29])) if rnd.random() < 0.6 else 0
    mons = []
    for _ in range(rnd.randint(2, 4)):
        word = [(rnd.randrange(len(spec)), rnd.random() < 0.5) for _ in range(rnd.randint(1, 3))]
        coef = Q(rnd.randint(1, 3), rnd.choice([1, 2, 3])) * (1 + (sympy.I * rnd.choice([1, -1, 2]) if cplx else 0))
        mons.append((coef, word))
    mons.append((Q(rnd.randint(1, 3), rnd.choice([1, 2])), [(rnd.randrange(len(spec)), False)]))      # (a single generator: the perturbation does not vanish identically)
    def num(d, k, n):
        return NumberOperator(d[n]) if k == 'l' else Dagger(d[n]) * d[n]
    def H0f(d):
        h = 0
        for (k, n), wi, ai in zip(spec, w, al):
            h = h + wi * num(d, k, n) + (ai * num(d, k, n) ** 2 if k in 'bl' else 0)
        if cross and len(spec) >= 2: h = h + cross * num(d, *spec[0]) * num(d, *spec[1])
        if cross2 and len(spec) >= 3: h = h + cross2 * num(d, *spec[1]) * num(d, *spec[2]) + Q(1, 19) * num(d, *spec[0]) * num(d, *spec[2])
        return h
    def Vf(d, hermitian_V=True):
        W = 0
        for coef, word in mons:
            t = coef
            for (m, cr) in word: t = t * (Dagger(d[spec[m][1]]) if cr else d[spec[m][1]])
            W = W + t
        return W + (Dagger(W) if hermitian_V else Q(1, 2) * Dagger(W))       # (W + W^dagger/2 is not Hermitian)
    label = "generated: " + "".join(kinds) + " " + "; ".join(f"{c}*" + ".".join((spec[m][1] + ("+" if cr else "")) for m, cr in wd) for c, wd in mons) + f" | w={w} anh={al} cross={cross}"
    return label, spec, H0f, Vf

def run(label, spec, H0f, Vf, maxn, cut, patterns=None, hermitian=True):
    """`patterns`: operator-valued elimination mask of a scalar Hamiltonian, as a set of shift patterns (one integer per mode, closed under
    negation); only the terms with these shifts are eliminated, all other off-diagonal terms are kept"""
    spec0 = list(spec)
    spec = sorted(spec, key=lambda m: (ORDER[m[0]], m[1])); ops = [KIND[k](n) for k, n in spec]
    d = {n: o for (k, n), o in zip(spec, ops)}; lam = sympy.Symbol('lambda', real=True)
    H0 = H0f(d); V = Vf(d); ph = [_number_operator_to_placeholder(NumberOperator(o)) for o in ops]
    kw = {}
    sym_min = None
    if isinstance(patterns, dict):
        # symbolic powers: a**(k + m) + Dagger(a)**(k + m) on the first mode = every shift of that mode by m or more quanta (the others untouched)
        sym_min = patterns["min_shift"]; kk = sympy.Symbol("k", integer=True, nonnegative=True); o = ops[0]
        kw["fully_diagonalize"] = sympy.Matrix([[o ** (kk + sym_min) + Dagger(o) ** (kk + sym_min)]]); patterns = "symbolic"
    elif patterns is not None:
        patterns = {tuple(p[spec0.index(m)] for m in spec) for p in patterns}          # (modes are re-ordered above)
        def word(p):
            t = sympy.S.One
            for o, e in zip(ops, p):       # creation operators to the left of annihilation operators, mode by mode
                if e > 0: t = t * Dagger(o) ** e
            for o, e in zip(ops, p):
                if e < 0: t = t * o ** (-e)
            return t
        kw["fully_diagonalize"] = sympy.Matrix([[sympy.Add(*[word(p) for p in sorted(patterns)])]])
    if not hermitian: kw["hermitian"] = False
    Ht, U, Ud = block_diagonalize(H0 + lam * V, symbols=[lam], **kw)
    outs = {n: (Ht[0, 0, n], U[0, 0, n], Ud[0, 0, n]) for n in range(1, maxn + 1)}
    dim = H0.rows if isinstance(H0, sympy.MatrixBase) else 1
    # an element between low states (|n| <= 2) at order <= 3 with steps of at most 3 quanta passes through |n| <= 5 only
    ranges = [range(0, cut) if m[0] == 'b' else (range(-max(cut // 2, 6), max(cut // 2, 6) + 1) if m[0] == 'l' else range(0, 2)) for m in spec]
    states = list(itertools.product(*ranges)); idx = {s: i for i, s in enumerate(states)}; ns = len(states)
    def mat1(x):
        M = np.zeros((ns, ns), dtype=complex)
        if x == 0: return M
        x = x if isinstance(x, NOF) else NOF.from_expr(sympy.sympify(x).subs(lam, 1), ops)
        for s in states:
            for t, a in nof_apply(spec, x, ops, ph, s).items():
                if t in idx: M[idx[t], idx[s]] += complex(a)
        return M
    def mat(x):
        """Fock matrix of a scalar operator or of a matrix of operators (index = entry * n_states + state)"""
        if not isinstance(x, sympy.MatrixBase): x = sympy.Matrix([[x]])
        M = np.zeros((dim * ns, dim * ns), dtype=complex)
        for i in range(x.rows):
            for j in range(x.cols): M[i * ns:(i + 1) * ns, j * ns:(j + 1) * ns] = mat1(x[i, j])
        return M
    states_all = [s for _ in range(dim) for s in states]
    H0m = mat(H0); Vm = mat(V); E = np.diag(H0m).real
    if label.startswith("charge qubit"):
        # (the Fock matrices above come out of the library's own conversion; for this system the levels are also known in closed form)
        km = [i for i, m_ in enumerate(spec) if m_[0] == 'l'][0]; ks = [i for i, m_ in enumerate(spec) if m_[0] == 's'][0]
        closed = np.array([(s_[km] - 1 / 3) ** 2 + 1.5 * s_[ks] for s_ in states_all])
        if np.abs(E - closed).max() > 1e-9: return [(0, float(np.abs(E - closed).max()), 0.0, len(E))]
    elim = np.abs(E.reshape(-1, 1) - E) > 1e-9
    if label.startswith("generated") and (~elim).sum() > len(E): return None       # two Fock states share an unperturbed energy: outside the quantifier
    if label.startswith(("matrix-valued: dispersive", "Floquet-like")): assert (~elim).sum() == len(E), "the fixed system has two equal Fock levels"
    if patterns is not None:
        sel = np.zeros_like(elim)
        for i_, s_ in enumerate(states_all):
            for j_, t_ in enumerate(states_all):
                sh = tuple(a_ - b_ for a_, b_ in zip(s_, t_))
                if (sh in patterns) if sym_min is None else (abs(sh[0]) >= sym_min and not any(sh[1:])): sel[i_, j_] = True      # <s| term |t> raises by s - t
        elim = elim & sel
    rHt, rU, rUi = reference({(0,): H0m, (1,): Vm}, elim, (maxn,))
    low = [i for i, s in enumerate(states_all) if all(abs(x) <= 2 for x in s)]
    res = []
    for n in range(1, maxn + 1):
        h, u, ui = outs[n]
        hm = mat(h); um = mat(u); uim = mat(ui)
        eu = max(float(np.abs(um - rU[(n,)])[np.ix_(low, low)].max()), float(np.abs(uim - rUi[(n,)])[np.ix_(low, low)].max()))      # U and its inverse (adjoint)
        res.append((n, float(np.abs(hm - rHt[(n,)])[np.ix_(low, low)].max()), eu, len(low)))
    return res

def run_blocks(spec, H0f, Vf, sub, fd, cut=8, maxn=3):
    """a matrix-valued second-quantised Hamiltonian split into blocks by `subspace_indices`, `fully_diagonalize` naming none, some or all of the blocks
    (a list of blocks, or a dict of operator-valued masks): elements between different blocks are eliminated; inside a block everything is kept unless
    the block is listed (then all elements between different Fock levels go) or masked (then the shifts the mask names go)"""
    spec = sorted(spec, key=lambda m: (ORDER[m[0]], m[1])); ops = [KIND[k](n) for k, n in spec]
    d = {n: o for (k, n), o in zip(spec, ops)}; lam = sympy.Symbol('lambda', real=True)
    H0 = H0f(d); V = Vf(d); ph = [_number_operator_to_placeholder(NumberOperator(o)) for o in ops]
    kw = {}
    if isinstance(fd, list): kw["fully_diagonalize"] = fd
    elif isinstance(fd, dict): kw["fully_diagonalize"] = {b: sympy.Matrix([[sympy.Add(*[(Dagger(ops[0]) ** p if p > 0 else ops[0] ** (-p)) for p in pats])]]) for b, pats in fd.items()}
    Ht, U, Ud = block_diagonalize(H0 + lam * V, symbols=[lam], subspace_indices=sub, **kw)
    dim = H0.rows; nbl = max(sub) + 1
    ranges = [range(0, cut) if m[0] == 'b' else range(0, 2) for m in spec]
    states = list(itertools.product(*ranges)); idx = {s_: i for i, s_ in enumerate(states)}; ns = len(states)
    def mat1(x):
        M = np.zeros((ns, ns), dtype=complex)
        if x == 0: return M
        x = x if isinstance(x, NOF) and list(x.operators) == list(ops) else NOF.from_expr(sympy.sympify(x.as_expr() if isinstance(x, NOF) else x).subs(lam, 1), ops)
        for s_ in states:
            for t, a in nof_apply(spec, x, ops, ph, s_).items():
                if t in idx: M[idx[t], idx[s_]] += complex(a)
        return M
    def mat(x):
        M = np.zeros((dim * ns, dim * ns), dtype=complex)
        for i in range(x.rows):
            for j in range(x.cols): M[i * ns:(i + 1) * ns, j * ns:(j + 1) * ns] = mat1(x[i, j])
        return M
    rows = [[r for r in range(dim) if sub[r] == b] for b in range(nbl)]
    def assemble(Sx, n):
        M = np.zeros((dim * ns, dim * ns), dtype=complex)
        for bi in range(nbl):
            for bj in range(nbl):
                v = Sx[bi, bj, n]
                if v is zero: continue
                v = sympy.eye(len(rows[bi])) if v is one else sympy.Matrix(v)
                for a, r in enumerate(rows[bi]):
                    for b, c_ in enumerate(rows[bj]): M[r * ns:(r + 1) * ns, c_ * ns:(c_ + 1) * ns] = mat1(v[a, b])
        return M
    H0m = mat(H0); Vm = mat(V); E = np.diag(H0m).real; full = [(r, s_) for r in range(dim) for s_ in states]
    elim = np.zeros((dim * ns, dim * ns), dtype=bool)
    for i, (r, s_) in enumerate(full):
        for j, (c_, t) in enumerate(full):
            if sub[r] != sub[c_]: elim[i, j] = True
            elif isinstance(fd, list) and sub[r] in fd: elim[i, j] = abs(E[i] - E[j]) > 1e-9
            elif isinstance(fd, dict) and sub[r] in fd: elim[i, j] = r == c_ and (s_[0] - t[0]) in fd[sub[r]] and not any(a != b for a, b in zip(s_[1:], t[1:]))
    assert not np.any(elim & (np.abs(E.reshape(-1, 1) - E) < 1e-9)), "an eliminated pair is degenerate"
    rHt, rU, rUi = reference({(0,): H0m, (1,): Vm}, elim, (maxn,))
    low = [i for i, (r, s_) in enumerate(full) if all(abs(x) <= 2 for x in s_)]
    out = []
    for n in range(1, maxn + 1):
        eh = float(np.abs(assemble(Ht, n) - rHt[(n,)])[np.ix_(low, low)].max())
        eu = max(float(np.abs(assemble(U, n) - rU[(n,)])[np.ix_(low, low)].max()), float(np.abs(assemble(Ud, n) - rUi[(n,)])[np.ix_(low, low)].max()))
        out.append((n, eh, eu, len(low)))
    return out

BLOCK_CASES = [
 ("two blocks by subspace_indices, nothing fully diagonalised (everything inside a block is kept)", None),
 ("two blocks, fully_diagonalize=[0]: only one of them listed", [0]),
 ("two blocks, fully_diagonalize={0: a + a^dagger}: one block masked, the other untouched", {0: [1, -1]}),
 ("two blocks, fully_diagonalize=[0, 1]", [0, 1]),
 ("two blocks, fully_diagonalize={0: a^2 + a^dagger^2}: the two-photon terms eliminated, the linear drive kept (kept terms generate eliminated ones)", {0: [2, -2]}),
 ("two blocks, a complex number-conserving coupling i N / 2 between them", None, "complex"),
 ("two blocks, a complex number-conserving coupling i N / 2 between them, fully_diagonalize=[0, 1]", [0, 1], "complex"),
]
BLOCK_V_COMPLEX = lambda d: sympy.Matrix([[d['a'] + Dagger(d['a']), sympy.I * Q(1, 2) * Dagger(d['a']) * d['a']], [-sympy.I * Q(1, 2) * Dagger(d['a']) * d['a'], -(d['a'] + Dagger(d['a']))]])
BLOCK_H0 = lambda d: sympy.Matrix([[2 * Dagger(d['a']) * d['a'], 0], [0, 2 * Dagger(d['a']) * d['a'] + Q(7, 3)]])
BLOCK_V = lambda d: sympy.Matrix([[d['a'] + Dagger(d['a']) + Q(1, 2) * (d['a'] ** 2 + Dagger(d['a']) ** 2), 1 + Dagger(d['a'])], [1 + d['a'], Q(1, 3) * (d['a'] + Dagger(d['a']))]])

def run_solver(label, spec, H0f, Vf, hermitian_Y, flag, cut):
    """C16: the second-quantised Sylvester solver called directly on a diagonal entry: H_ii X - X H_ii = Y as an operator identity (Fock matrices, low states)"""
    from pymablock.second_quantization import solve_sylvester_2nd_quant
    spec = sorted(spec, key=lambda m: (ORDER[m[0]], m[1])); ops = [KIND[k](n) for k, n in spec]
    d = {n: o for (k, n), o in zip(spec, ops)}
    H0 = H0f(d); V = Vf(d) if hermitian_Y else Vf(d, False); ph = [_number_operator_to_placeholder(NumberOperator(o)) for o in ops]
    Yn = NOF.from_expr(sympy.sympify(V), ops)
    Yn = NOF(Yn.args[0], {k: v for k, v in Yn.terms.items() if any(k)})          # the part that changes occupations (what the algorithm hands to the solver)
    if not Yn.terms: return None
    ranges = [range(0, cut) if m[0] == 'b' else (range(-6, 7) if m[0] == 'l' else range(0, 2)) for m in spec]
    states = list(itertools.product(*ranges)); idx = {s_: i for i, s_ in enumerate(states)}; ns = len(states)
    def mat1(x):
        M = np.zeros((ns, ns), dtype=complex)
        x = x if isinstance(x, NOF) and list(x.operators) == list(ops) else NOF.from_expr(sympy.sympify(x.as_expr() if isinstance(x, NOF) else x), ops)
        for s_ in states:
            for t, a in nof_apply(spec, x, ops, ph, s_).items():
                if t in idx: M[idx[t], idx[s_]] += complex(a)
        return M
    H0m = mat1(H0); E = np.diag(H0m).real
    if (np.abs(E.reshape(-1, 1) - E) < 1e-9).sum() > len(E): return None
    solve = solve_sylvester_2nd_quant([[H0]], hermitian=flag)
    X = solve(sympy.Matrix([[Yn.as_expr()]]), (0, 0, 1))[0, 0]
    Xm = mat1(X); Ym = mat1(Yn)
    low = [i for i, s_ in enumerate(states) if all(abs(x) <= 2 for x in s_)]
    res = (H0m @ Xm - Xm @ H0m - Ym)[np.ix_(low, low)]
    return float(np.abs(res).max()), len(low)

def main(seed, ncases, driver, out, mode="all"):
    failures = []; dist = {}; samples = []; evals = 0; distinct = 0; worst = 0.0
    for c in (range(ncases) if mode == "all" else range(len(SYSTEMS), len(SYSTEMS) + ncases)):
        if skip(c): continue
        if c < len(SYSTEMS): label, spec, H0f, Vf = SYSTEMS[c]; cut = 8
        else:
            label, spec, H0f, Vf = random_system(case_rnd(seed, c)); cut = 8
        dist[label.split(" ")[0] + " " + "".join(k for k, _ in spec)] = dist.get(label.split(" ")[0] + " " + "".join(k for k, _ in spec), 0) + 1
        if len(samples) < 12: samples.append({"system": label, "modes": spec})
        patterns = None
        if c >= len(SYSTEMS) and c % 3 == 2 and mode == "all":
            # selective elimination with an operator-valued mask: a random symmetric set of shift patterns
            prnd = case_rnd(seed, 10**6 + c); patterns = set()
            for _ in range(prnd.randint(1, 3)):
                pt = tuple(prnd.choice([0, 0, 1, -1, 2]) if k in 'bl' else prnd.choice([0, 1, -1]) for k, _n in spec)
                if any(pt): patterns |= {pt, tuple(-x for x in pt)}
            if spec[0][0] == 'b' and sorted(spec, key=lambda m: (ORDER[m[0]], m[1]))[0] == spec[0] and prnd.random() < 0.4:
                patterns = {"min_shift": prnd.choice([1, 2])}; label += " | mask a**(k+%d) + h.c." % patterns["min_shift"]
                dist["with a symbolic-power mask"] = dist.get("with a symbolic-power mask", 0) + 1
            elif not patterns: patterns = None
            else: label += " | mask " + str(sorted(patterns)); dist["with an operator-valued mask"] = dist.get("with an operator-valued mask", 0) + 1
        if mode == "solver":
            hermY = c % 2 == 0; flag = hermY and c % 4 == 0        # Hermitian right-hand sides with the shortcut on and off, non-Hermitian ones with it off
            dist[f"solver: hermitian_Y={hermY} hermitian_flag={flag}"] = dist.get(f"solver: hermitian_Y={hermY} hermitian_flag={flag}", 0) + 1
            try:
                r = run_solver(label, spec, H0f, Vf, hermY, flag, cut)
                if r is None: continue
                evals += r[1] ** 2; worst = max(worst, r[0]); distinct += 1
                if r[0] > 1e-8: failures.append({"system": label, "kind": "solver-residual", "hermitian_Y": hermY, "hermitian_flag": flag, "residual": r[0]})
            except Exception as e:
                failures.append({"system": label, "kind": "implementation-raises", "error": type(e).__name__ + ": " + str(e)[:150]})
            continue
        herm = True
        if c >= len(SYSTEMS) and (c % 3 == 1 or mode == "nh"):
            # the non-Hermitian algorithm on second-quantised input: a non-Hermitian perturbation, or a Hermitian one (same answer as the Hermitian mode)
            herm = False; Vh = Vf
            if c % 2 == 0: Vf = (lambda d, Vh=Vh: Vh(d, False)); label += " | non-Hermitian perturbation W + W^dagger/2"
            label += " | hermitian=False"; dist["hermitian=False"] = dist.get("hermitian=False", 0) + 1
        try:
            res = run(label, spec, H0f, Vf, 3, cut, patterns, herm)
            if res is None: dist["skipped: degenerate Fock levels"] = dist.get("skipped: degenerate Fock levels", 0) + 1; continue
            for (n, eh, eu, nlow) in res:
                evals += 2 * nlow * nlow; worst = max(worst, eh, eu)
                if eh > 1e-8 or eu > 1e-8: failures.append({"system": label, "kind": "differs-from-fock-matrices", "order": n, "H_tilde_err": eh, "U_err": eu})
            distinct += 1
        except Exception as e:
            failures.append({"system": label, "kind": "implementation-raises", "error": type(e).__name__ + ": " + str(e)[:150]})
    if mode == "all":
        for label, fd, *which in BLOCK_CASES:
            dist["blocks: " + label] = 1
            try:
                for (n, eh, eu, nlow) in run_blocks([('b', 'a')], BLOCK_H0, BLOCK_V_COMPLEX if which else BLOCK_V, [0, 1], fd):
                    evals += 2 * nlow * nlow; worst = max(worst, eh, eu)
                    if eh > 1e-8 or eu > 1e-8: failures.append({"system": label, "kind": "differs-from-fock-matrices", "order": n, "H_tilde_err": eh, "U_err": eu})
                distinct += 1
            except Exception as e:
                failures.append({"system": label, "kind": "implementation-raises", "error": type(e).__name__ + ": " + str(e)[:150]})
    json.dump({"evaluations": evals, "cases": ncases, "distinct_nontrivial": distinct, "failures": failures, "distribution": dist,
               "samples": samples, "worst_abs_error": worst}, open(out, "w"))

if __name__ == "__main__":
    main(int(sys.argv[1]), int(sys.argv[2]), sys.argv[3], sys.argv[4], *sys.argv[5:6])
