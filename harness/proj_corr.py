"""C17: the real `linalg.ComplementProjector` against the Lean model `Projector.Proj` (driver command `proj`).

A case = a pair (R, L) of vector sets and a *history*: a pool of operator objects grown by applying `.T`, `.H`,
`.conjugate()` to objects already in the pool (so that the cache links of the real class are exercised in every request
order), each object then used from the left and from the right on vectors and matrices, alone and inside composites
`P @ A @ P`, `(P @ A @ P).H`, `x @ (P @ A @ P)` with dense and sparse `A`.  The model is asked for the dense matrix of the
*word* of operations that produced each object (through `_apply` on the identity and, independently, `_apply_left`); all
composites are then exact rational matrix algebra.  Entries are Gaussian rationals; the floating-point side must agree
to 1e-12 relative.  Strata: L = R (orthonormalised or not), biorthogonal pairs (L†R = 1: idempotence is checked), generic
pairs, and *nearly equal* pairs L = R + 2^-30 Z (a projector that treats "close" as "equal" is off by 1e-9).
"""
import os, sys; sys.path.insert(0, os.path.dirname(os.path.abspath(__file__)))
from common import case_rnd, skip
import json, subprocess, warnings
from fractions import Fraction
import numpy as np
from scipy import sparse
from scipy.sparse.linalg import aslinearoperator
warnings.simplefilter("ignore")
from pymablock.linalg import ComplementProjector

F0 = Fraction(0)
def gs(z): return f"{z[0].numerator}/{z[0].denominator},{z[1].numerator}/{z[1].denominator}"
def cf(z): return complex(float(z[0]), float(z[1]))
def cmul(a, b): return (a[0] * b[0] - a[1] * b[1], a[0] * b[1] + a[1] * b[0])
def cadd(a, b): return (a[0] + b[0], a[1] + b[1])
def cconj(a): return (a[0], -a[1])
def mmul(A, B):
    n, k, m = len(A), len(B), len(B[0]) if B else 0
    out = [[(F0, F0)] * m for _ in range(n)]
    for i in range(n):
        for j in range(m):
            acc = (F0, F0)
            for c in range(k): acc = cadd(acc, cmul(A[i][c], B[c][j]))
            out[i][j] = acc
    return out
def madj(A): return [[cconj(A[i][j]) for i in range(len(A))] for j in range(len(A[0]))]
def mtr(A): return [[A[i][j] for i in range(len(A))] for j in range(len(A[0]))]
def tofl(A): return np.array([[cf(z) for z in row] for row in A], dtype=complex)
def parse(line):
    return [[(lambda re, im: (Fraction(re), Fraction(im)))(*e.split(",")) for e in row.split(";")] for row in line.strip().split("|")]

def rnd_entry(rnd, cplx, dens=(1, 2, 4)):
    re = Fraction(rnd.randint(-4, 4), rnd.choice(dens)); im = Fraction(rnd.randint(-4, 4), rnd.choice(dens)) if cplx else F0
    return (re, im)

def gen(rnd):
    n = rnd.randint(2, 5); m = rnd.randint(1, n - 1); cplx = rnd.random() < 0.65
    # the right and the left vectors may have different dtypes (real right basis with a complex dual basis and vice versa)
    mixed = rnd.random() < 0.25; cR = cplx and not (mixed and rnd.random() < 0.5); cL = cplx if not mixed else not cR
    R = [[rnd_entry(rnd, cR) for _ in range(m)] for _ in range(n)]
    kind = rnd.choice(["hermitian", "biorthogonal", "generic", "nearly-equal", "nearly-equal"])
    if mixed: kind = "generic"; cplx = cL        # (a biorthogonal dual of a complex basis is complex: no mixed dtypes there)
    if kind == "hermitian": L = None
    elif kind == "generic": L = [[rnd_entry(rnd, cplx) for _ in range(m)] for _ in range(n)]
    elif kind == "nearly-equal":
        eps = Fraction(1, 2 ** rnd.choice([24, 30, 34]))
        L = [[cadd(R[a][c], (eps * rnd.randint(-3, 3), eps * rnd.randint(-3, 3) if cplx else F0)) for c in range(m)] for a in range(n)]
        if L == R: L[0][0] = cadd(L[0][0], (eps, F0))
    else:   # biorthogonal: L = X (R† X)^-†  for a random X, exact by Gaussian elimination over the Gaussian rationals
        X = [[rnd_entry(rnd, cplx) for _ in range(m)] for _ in range(n)]
        G = mmul(madj(R), X)          # m × m
        Gi = ginv(G)
        if Gi is None: L = [[rnd_entry(rnd, cplx) for _ in range(m)] for _ in range(n)]; kind = "generic"
        else: L = mmul(X, madj(Gi)) if False else mmul(X, Gi)   # L = X G^{-1}  ⇒  R† L = G G^{-1} = 1 ⇒ L† R = 1
    return n, m, (cR or cL), kind + (" (mixed dtypes)" if mixed else ""), R, L, cR, cL

def ginv(G):
    m = len(G); A = [list(r) + [((Fraction(1), F0) if i == j else (F0, F0)) for j in range(m)] for i, r in enumerate(G)]
    for c in range(m):
        p = next((r for r in range(c, m) if A[r][c] != (F0, F0)), None)
        if p is None: return None
        A[c], A[p] = A[p], A[c]
        z = A[c][c]; nz = z[0] * z[0] + z[1] * z[1]; inv = (z[0] / nz, -z[1] / nz)
        A[c] = [cmul(inv, x) for x in A[c]]
        for r in range(m):
            if r != c and A[r][c] != (F0, F0):
                f = A[r][c]; A[r] = [cadd(x, cmul((-f[0], -f[1]), y)) for x, y in zip(A[r], A[c])]
    return [row[m:] for row in A]

OPS = {"T": lambda Q: Q.T, "H": lambda Q: Q.H, "C": lambda Q: Q.conjugate()}

def main(seed, ncases, driver, out):
    proc = subprocess.Popen([driver], stdin=subprocess.PIPE, stdout=subprocess.PIPE, text=True)
    def ask(req):
        proc.stdin.write(json.dumps(req) + "\n"); proc.stdin.flush(); return proc.stdout.readline()
    failures = []; dist = {}; samples = []; evals = 0; distinct = 0; worst = 0.0
    for c in range(ncases):
        if skip(c): continue
        rnd = case_rnd(seed, c)
        n, m, cplx, kind, R, L, cR, cL = gen(rnd)
        dist[kind] = dist.get(kind, 0) + 1
        Rf = tofl(R); Lf = None if L is None else tofl(L)
        if not cR: Rf = Rf.real.copy()
        if Lf is not None and not cL: Lf = Lf.real.copy()
        Lm = R if L is None else L
        desc = {"n": n, "m": m, "complex": cplx, "kind": kind, "R": [[gs(z) for z in r] for r in R], "L": None if L is None else [[gs(z) for z in r] for r in L]}
        ident = [[((Fraction(1), F0) if a == b else (F0, F0)) for b in range(n)] for a in range(n)]
        bad = None
        def fail(what, **kw):
            nonlocal bad
            if bad is None: bad = dict(desc, case=c, kind_of_failure=what, **kw)
        try:
            if Lf is not None and Rf.dtype == Lf.dtype and rnd.random() < 0.35:
                # right and left vectors as views into one buffer (columns of a stacked [R | L]; the halves of an eigen-decomposition stored together)
                buf = np.hstack([Rf, Lf]); Rf = buf[:, :m]; Lf = buf[:, m:]; dist["R and L are views of one buffer"] = dist.get("R and L are views of one buffer", 0) + 1
            P = ComplementProjector(Rf) if (L is None and rnd.random() < 0.5) else ComplementProjector(Rf, Rf.copy() if L is None else Lf)
            if P.shape != (n, n): fail("shape", got=list(P.shape))
            want_dtype = np.result_type(Rf.dtype, (Rf if Lf is None else Lf).dtype)
            if P.dtype != want_dtype: fail("dtype", got=str(P.dtype), want=str(want_dtype))
            # ---- history: grow the pool
            pool = [([], P)]; hist = []
            for _ in range(rnd.randint(2, 7)):
                w, Q = pool[rnd.randrange(len(pool))]; op = rnd.choice("THC")
                pool.append((w + [op], OPS[op](Q))); hist.append("".join(w) + "." + op)
            desc["history"] = hist
            dense_cache = {}
            def model_dense(w):
                key = "".join(w)
                if key not in dense_cache:
                    base = {"cmd": "proj", "n": n, "m": m, "R": desc["R"], "L": desc["L"] or desc["R"], "word": list(w)}
                    l1 = ask(dict(base, side="left", X=[[gs(z) for z in r] for r in ident]))
                    l2 = ask(dict(base, side="right", X=[[gs(z) for z in r] for r in ident]))
                    if l1.startswith("bad") or l2.startswith("bad"): raise RuntimeError("driver: " + l1.strip() + " " + l2.strip())
                    D1, D2 = parse(l1), parse(l2)
                    if D1 != D2: fail("model-inconsistent: _apply and _apply_left disagree about the dense matrix", word=key)
                    dense_cache[key] = D1
                return dense_cache[key]
            def cmp(what, got, want_exact):
                nonlocal evals, worst
                want = tofl(want_exact); got = np.asarray(got, dtype=complex).reshape(want.shape)
                err = float(np.abs(got - want).max()) if want.size else 0.0; scale = 1 + float(np.abs(want).max()) if want.size else 1.0
                evals += 1; worst = max(worst, err / scale)
                if not err <= 1e-12 * scale: fail("value", operation=what, abs_err=err)
            # the spec itself: word [] must be 1 - R L†
            RL = mmul(R, madj(Lm)); spec = [[cadd(ident[a][b], (-RL[a][b][0], -RL[a][b][1])) for b in range(n)] for a in range(n)]
            if model_dense([]) != spec: fail("model-vs-spec: dense(P) != 1 - R L†")
            if kind.startswith("biorthogonal"):
                D = model_dense([]);
                if mmul(D, D) != D: fail("model: not idempotent although L†R = 1")
            A = [[rnd_entry(rnd, cplx) for _ in range(n)] for _ in range(n)]; Af = tofl(A) if cplx else tofl(A).real.copy()
            for w, Q in pool:
                D = model_dense(w); k = rnd.randint(1, 3)
                X = [[rnd_entry(rnd, True) for _ in range(k)] for _ in range(n)]; Xf = tofl(X)
                Yr = [[rnd_entry(rnd, True) for _ in range(n)] for _ in range(k)]; Yf = tofl(Yr)
                tag = "P" + "".join("." + o for o in w)
                cmp(tag + " @ matrix", Q @ Xf, mmul(D, X))
                cmp(tag + " @ vector", Q @ Xf[:, 0], [[r[0]] for r in mmul(D, X)])
                cmp("matrix @ " + tag, Yf @ Q, mmul(Yr, D))
                cmp("vector @ " + tag, Yf[0] @ Q, [mmul(Yr, D)[0]])
                cmp(tag + ".rmatvec", Q.rmatvec(Xf[:, 0]), [[r[0]] for r in mmul(madj(D), X)])
                cmp(tag + " @ identity", Q @ np.eye(n), D)
                # sparse operands (complex entries), as implicit mode hands them over for sparse perturbations
                for fmt_ in (sparse.csr_array, sparse.csc_array):
                    gsp = Q @ fmt_(Xf); gsp = gsp.toarray() if sparse.issparse(gsp) else np.asarray(gsp)
                    cmp(tag + " @ sparse matrix (" + fmt_.__name__ + ")", gsp, mmul(D, X))
                # the same on tiny operands (high orders, small units): the operator is linear, the error relative to the operand
                for tiny in (2.0 ** -34, 2.0 ** -44):
                    g1 = np.asarray(Q @ (Xf * tiny)) / tiny; g2 = np.asarray((Yf * tiny) @ Q) / tiny; g3 = np.asarray(Q.rmatvec(Xf[:, 0] * tiny)) / tiny
                    cmp(tag + " @ tiny matrix", g1, mmul(D, X)); cmp("tiny matrix @ " + tag, g2, mmul(Yr, D)); cmp(tag + ".rmatvec(tiny)", g3, [[r[0]] for r in mmul(madj(D), X)])
                if kind.startswith("biorthogonal"): cmp(tag + " @ " + tag + " @ matrix (idempotent)", Q @ (Q @ Xf), mmul(D, X))
                # the projector composed with itself and with its own transpose / adjoint / conjugate, as operators
                w2, Q2 = pool[rnd.randrange(len(pool))]; D2 = model_dense(w2); tag2 = "P" + "".join("." + o for o in w2)
                for name, comp, Dc in ((f"({tag} @ {tag})", Q @ Q, mmul(D, D)), (f"({tag}.dot({tag}))", Q.dot(Q), mmul(D, D)), (f"({tag} @ {tag2})", Q @ Q2, mmul(D, D2)),
                                       (f"({tag} @ {tag} @ {tag2})", Q @ Q @ Q2, mmul(mmul(D, D), D2))):
                    cmp(name + " @ matrix", comp @ Xf, mmul(Dc, X))
                    cmp("matrix @ " + name, Yf @ comp, mmul(Yr, Dc))
                    cmp(name + ".H @ matrix", comp.H @ Xf, mmul(madj(Dc), X))
                if rnd.random() < 0.6:
                    Aop = sparse.csr_array(Af) if rnd.random() < 0.5 else Af
                    C = Q @ aslinearoperator(Aop) @ Q; DC = mmul(mmul(D, A), D)
                    cmp(f"({tag} @ A @ {tag}) @ matrix", C @ Xf, mmul(DC, X))
                    cmp(f"({tag} @ A @ {tag}).H @ matrix", C.H @ Xf, mmul(madj(DC), X))
                    cmp(f"({tag} @ A @ {tag}).T @ matrix", C.T @ Xf, mmul(mtr(DC), X))
                    cmp(f"matrix @ ({tag} @ A @ {tag})", Yf @ C, mmul(Yr, DC))
        except Exception as e:
            fail("implementation-raises", error=type(e).__name__ + ": " + str(e)[:200])
        distinct += 1
        if len(samples) < 2: samples.append(desc)
        if bad: failures.append(dict(bad, kind=bad.pop("kind_of_failure"), stratum=kind))
    proc.stdin.close()
    json.dump({"evaluations": evals, "cases": ncases, "distinct_nontrivial": distinct, "failures": failures, "distribution": dist,
               "samples": samples, "worst_abs_error": worst}, open(out, "w"))

if __name__ == "__main__":
    main(int(sys.argv[1]), int(sys.argv[2]), sys.argv[3], sys.argv[4])
