"""C19 on the real code: BlockSeries[item] against the same item applied to the dense object array of element values,
with zero elements masked; each element evaluated at most once; negative / infinite orders raise IndexError."""
import os, sys; sys.path.insert(0, os.path.dirname(os.path.abspath(__file__)))
from common import case_rnd, skip
import sys, json, random, itertools, warnings
import numpy as np
warnings.simplefilter("ignore")
from pymablock.series import BlockSeries, zero

def gen_axis_item(rnd, size, infinite):
    r = rnd.random()
    if r < 0.35: return rnd.randrange(size) if infinite or rnd.random() < 0.7 else -rnd.randint(1, size)
    if r < 0.55: return [rnd.randrange(size) for _ in range(rnd.randint(1, 3))]
    if r < 0.9:
        a = rnd.randrange(size); b = rnd.randint(a, size); st = rnd.choice([None, 1, 2])
        return slice(rnd.choice([None, a]), b, st)
    return rnd.choice([-1, [-1, 0], slice(None, None), slice(-1, 2)]) if infinite else slice(None, None)

def show(it): return [str(x) for x in it]

def main(seed, ncases, driver, out):
    rnd = random.Random(seed); failures = []; dist = {}; samples = []; evals = 0; distinct = 0
    for c in range(ncases):
        if skip(c): continue
        rnd = case_rnd(seed, c)
        shape = tuple(rnd.randint(1, 3) for _ in range(rnd.choice([0, 1, 2, 2]))); ninf = rnd.choice([1, 1, 2]) if shape else rnd.choice([1, 2])
        top = 4; log = []
        def ev(*idx, log=log):
            log.append(idx)
            h = sum((k + 2) * (v + 1) for k, v in enumerate(idx))
            return zero if h % 4 == 0 else h
        s = BlockSeries(eval=ev, shape=shape, n_infinite=ninf)
        dense = np.empty(shape + (top,) * ninf, dtype=object)
        for idx in itertools.product(*[range(n) for n in dense.shape]):
            h = sum((k + 2) * (v + 1) for k, v in enumerate(idx)); dense[idx] = zero if h % 4 == 0 else h
        item = tuple(gen_axis_item(rnd, n, False) for n in shape) + tuple(gen_axis_item(rnd, top, True) for _ in range(ninf))
        desc = {"shape": list(shape), "n_infinite": ninf, "item": show(item)}
        if len(samples) < 3: samples.append(desc)
        def bad_order(o):
            if isinstance(o, slice): return o.stop is None or (isinstance(o.start, int) and o.start < 0)
            return bool(np.any(np.asarray(o) < 0))
        expect_err = any(bad_order(o) for o in item[len(shape):])
        kind = "error-expected" if expect_err else "value"; dist[kind] = dist.get(kind, 0) + 1
        try:
            got = s[item]
        except IndexError as e:
            if not expect_err:
                try: dense[item]; failures.append(dict(desc, kind="unexpected-IndexError", error=str(e)[:100]))
                except IndexError: pass                       # numpy rejects it as well (e.g. mismatched list lengths)
            evals += 1; continue
        except Exception as e:
            failures.append(dict(desc, kind="implementation-raises", error=type(e).__name__ + ": " + str(e)[:100])); continue
        evals += 1; distinct += 1
        if expect_err:
            failures.append(dict(desc, kind="negative-or-infinite-order-accepted", got=str(got)[:80])); continue
        want = dense[item]
        if isinstance(want, np.ndarray):
            g = np.ma.filled(got, zero) if isinstance(got, np.ma.MaskedArray) else np.asarray(got, dtype=object)
            ok = g.shape == want.shape and all(a is b or a == b for a, b in zip(g.reshape(-1), want.reshape(-1)))
            if ok and isinstance(got, np.ma.MaskedArray):
                ok = all(bool(m) == (v is zero) for m, v in zip(np.ma.getmaskarray(got).reshape(-1), want.reshape(-1)))
        else:
            ok = got is want or got == want
        if not ok: failures.append(dict(desc, kind="differs-from-numpy", got=str(got)[:120], want=str(want)[:120]))
        if len(set(log)) != len(log): failures.append(dict(desc, kind="element-evaluated-twice"))
        # exactly the selected elements are evaluated: nothing outside the selection (lazy), nothing of it skipped
        flat = np.arange(dense.size).reshape(dense.shape)
        selected = set(int(x) for x in np.atleast_1d(flat[item]).reshape(-1))
        evaluated = set(int(np.ravel_multi_index(tuple(int(x) for x in idx), dense.shape)) for idx in log)
        if evaluated != selected:
            extra = sorted(evaluated - selected)[:5]; missing = sorted(selected - evaluated)[:5]
            failures.append(dict(desc, kind="evaluated-set-differs-from-selection", extra=[list(map(int, np.unravel_index(x, dense.shape))) for x in extra],
                                 missing=[list(map(int, np.unravel_index(x, dense.shape))) for x in missing]))
        n0 = len(log)
        try: s[item]
        except Exception as e: failures.append(dict(desc, kind="repeated-request-raises", error=str(e)[:100]))
        if len(log) != n0: failures.append(dict(desc, kind="cached-element-evaluated-again"))
    json.dump({"evaluations": evals, "cases": ncases, "distinct_nontrivial": distinct, "failures": failures, "distribution": dist, "samples": samples}, open(out, "w"))

if __name__ == "__main__":
    main(int(sys.argv[1]), int(sys.argv[2]), sys.argv[3], sys.argv[4])
