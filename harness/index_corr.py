"""C19 on the real code: BlockSeries[item] against the same item applied to the dense object array of element values,
with zero elements masked; each element evaluated at most once; negative / infinite orders raise IndexError.

Three-way: the Lean model `Index.getitem` (driver command `index`) is asked for the same item and must give the result shape, the
source element of every entry of the result (row-major) and the set of evaluated elements that the real code shows; the model's plain
NumPy rule `Index.select` is compared with NumPy itself on a dense array (`dense` mode), so that a disagreement is attributed to the
right side.  Finite-dimension-only items (views) are compared element by element with the model's `view` (= the model's selection on the finite shape followed by the orders, theorem C19_view)."""
import os, sys; sys.path.insert(0, os.path.dirname(os.path.abspath(__file__)))
from common import case_rnd, skip
import sys, json, random, itertools, warnings
import numpy as np
warnings.simplefilter("ignore")
from pymablock.series import BlockSeries, zero

def gen_axis_item(rnd, size, infinite, listlen=None):
    r = rnd.random()
    npint = (lambda v: np.int64(v)) if rnd.random() < 0.25 else (lambda v: v)       # NumPy integers are integers too
    if r < 0.35: return npint(rnd.randrange(size)) if infinite or rnd.random() < 0.7 else npint(-rnd.randint(1, size))
    if r < 0.55:
        if rnd.random() < 0.05: return []                                           # an empty list selects nothing
        if rnd.random() < 0.06:                                                     # a rank-2 index (nested list): NumPy's rule, outside the model's grammar
            return [[rnd.randrange(size) for _ in range(2)] for _ in range(rnd.randint(1, 2))]
        n = listlen if listlen and rnd.random() < 0.8 else rnd.randint(1, 3)
        if rnd.random() < 0.15: n = 1                                              # broadcast against longer lists
        return [rnd.randrange(size) if infinite or rnd.random() < 0.8 else -rnd.randint(1, size) for _ in range(n)]
    if r < 0.9:
        a = rnd.randrange(size); b = rnd.randint(a, size); st = rnd.choice([None, 1, 2, 3])
        if rnd.random() < 0.1: a, b = b, a                                         # empty selections
        if not infinite and rnd.random() < 0.2: b = rnd.choice([None, b + 2, -1])  # clipped / counted from the end (finite axes)
        return slice(rnd.choice([None, npint(a)]), b if b is None else npint(b), st)
    if infinite:
        return rnd.choice([-1, [-1, 0], slice(None, None), slice(-1, 2), slice(0, -1), slice(None, -2), slice(np.int64(-1), 2), slice(1, np.int64(-1)),
                           np.int64(-1)])
    return rnd.choice([slice(None, None), slice(-2, None), size, -size - 1])       # whole axis, from the end, out of range

def show(it): return [repr(x) for x in it]
def enc(it):
    out = []
    for x in it:
        if isinstance(x, slice): out.append({"slice": [None if v is None else int(v) for v in (x.start, x.stop, x.step)]})
        elif isinstance(x, list): out.append({"list": [int(v) for v in x]})
        else: out.append({"int": int(x)})
    return out
def parse_model(line):
    line = line.strip()
    if line.startswith("err"): return line
    if not line.startswith("ok "): raise RuntimeError("driver: " + line)
    parts = line[3:].split("|")
    tup = lambda t: tuple(int(v) for v in t.split(",")) if t else ()
    lst = lambda t: [tup(u) for u in t.split(";")] if t != "" else []
    shape = tup(parts[0]); n = int(np.prod(shape)) if shape else 1
    srcs = lst(parts[1]) if n else []
    if n == 1 and parts[1] == "": srcs = [()]
    ev = None
    if len(parts) > 2:
        ev = lst(parts[2]) if n else []
        if n == 1 and parts[2] == "": ev = [()]
    return shape, srcs, ev

S_ = slice(None)
# items on the finite dimensions that are always exercised as views: lists between, before and after slices, with integers, on two and three block dimensions
DESIGNED_VIEWS = [((3, 3, 2), (S_, [2, 0], S_)), ((3, 3, 2), (slice(1, None), [0, 1], slice(None, 1))), ((3, 3, 2), ([0, 1], S_, [1, 0])), ((3, 3, 2), (S_, [2, 0], 1)),
                  ((3, 3, 2), (1, S_, [0, 1])), ((3, 3, 2), ([2, 0], S_, S_)), ((3, 3, 2), (S_, S_, [1, 0])), ((2, 3), (S_, [2, 0])), ((2, 3), ([1, 0], S_)),
                  ((3, 2, 3), (S_, [1], S_)), ((3, 2, 3), ([2, 0], 1, S_)), ((3, 2, 3), (slice(0, 3, 2), [1, 0], [0, 2])),
                  # block indices that are NumPy integers (what np.argwhere, np.nonzero, loops over arange hand out)
                  ((3, 3, 2), (np.int64(1), np.intp(2), np.int64(0))), ((2, 3), (np.int64(1), np.int32(2))), ((3, 3, 2), (np.int64(1), S_, np.uint8(1))), ((2, 3), (np.int64(-1), 0))]

def main(seed, ncases, driver, out):
    import subprocess
    proc = subprocess.Popen([driver], stdin=subprocess.PIPE, stdout=subprocess.PIPE, text=True)
    def ask(req):
        proc.stdin.write(json.dumps(req) + "\n"); proc.stdin.flush(); return proc.stdout.readline()
    rnd = random.Random(seed); failures = []; dist = {}; samples = []; evals = 0; distinct = 0
    for c in range(ncases):
        if skip(c): continue
        rnd = case_rnd(seed, c)
        if c % 400 == 0:
            # a recurrence that reads its lower orders through a view of its own block, made inside the evaluation and kept: the view must go on working
            # (it is made while an element of the block is in flight), every element is evaluated once
            views = {}; rlog = []; k0 = rnd.randint(1, 3)
            def rev(i, j, n, views=views, rlog=rlog):
                rlog.append((i, j, n))
                if (i, j) not in views: views[(i, j)] = T[i, j]
                return k0 if n == 0 else views[(i, j)][n - 1] + (i + 2 * j + 1)
            T = BlockSeries(eval=rev, shape=(2, 2), n_infinite=1); dist["recurrence through a kept view"] = dist.get("recurrence through a kept view", 0) + 1
            rdesc = {"case": c, "scenario": "recurrence through a view made inside the evaluation"}
            try:
                got = [T[0, 1, 2], views[(0, 1)][2], views[(0, 1)][3], T[0, 1][4], T[1, 1, 1], views[(1, 1)][1], views[(1, 1)][2]]
                want = [k0 + 2 * 3, k0 + 2 * 3, k0 + 3 * 3, k0 + 4 * 3, k0 + 4, k0 + 4, k0 + 8]
                if got != want: failures.append(dict(rdesc, kind="view: element differs", got=str(got), want=str(want)))
                if len(set(rlog)) != len(rlog): failures.append(dict(rdesc, kind="element-evaluated-twice", log=str(rlog)[:200]))
            except Exception as e:
                failures.append(dict(rdesc, kind="view: reading an element raises", error=type(e).__name__ + ": " + str(e)[:120]))
            evals += 1
        shape = tuple(rnd.randint(1, 3) for _ in range(rnd.choice([0, 1, 2, 2, 3]))); ninf = rnd.choice([1, 1, 2]) if shape else rnd.choice([1, 2])
        if len(shape) == 3 and ninf == 2: ninf = 1
        force_view = c < len(DESIGNED_VIEWS)
        if force_view: shape = DESIGNED_VIEWS[c][0]; ninf = 1
        top = 4; log = []
        def ev(*idx, log=log):
            log.append(idx)
            h = sum((k + 2) * (v + 1) for k, v in enumerate(idx))
            return zero if h % 4 == 0 else h
        s = BlockSeries(eval=ev, shape=shape, n_infinite=ninf)
        dense = np.empty(shape + (top,) * ninf, dtype=object)
        for idx in itertools.product(*[range(n) for n in dense.shape]):
            h = sum((k + 2) * (v + 1) for k, v in enumerate(idx)); dense[idx] = zero if h % 4 == 0 else h
        ll = rnd.choice([None, 2, 3])
        item = tuple(gen_axis_item(rnd, n, False, ll) for n in shape) + tuple(gen_axis_item(rnd, top, True, ll) for _ in range(ninf))
        if force_view: item = tuple(DESIGNED_VIEWS[c][1]) + (rnd.randrange(top),); dist["designed view"] = dist.get("designed view", 0) + 1
        elif rnd.random() < 0.04: item = item[:-1] if rnd.random() < 0.5 or not shape else item + (0,)      # wrong number of indices
        desc = {"shape": list(shape), "n_infinite": ninf, "item": show(item)}
        if len(samples) < 3: samples.append(desc)
        nested = any(isinstance(x, list) and any(isinstance(y, list) for y in x) for x in item)
        if nested: dist["nested lists (NumPy only)"] = dist.get("nested lists (NumPy only)", 0) + 1
        # ---- the model's NumPy rule against NumPy, on the dense array
        ml = ask({"cmd": "index", "shape": list(shape), "dense": list(dense.shape), "item": enc(item)}) if not nested else "skip"
        flat = np.arange(dense.size).reshape(dense.shape)
        try: npres = flat[item]
        except IndexError: npres = "err index"
        except Exception: npres = "err other"
        md = parse_model(ml) if not nested else None
        if nested or len(item) != dense.ndim: pass                          # (NumPy pads a short item with full slices; the series rejects it)
        elif isinstance(npres, str) or isinstance(md, str):
            if not (isinstance(md, str) and md == npres):
                failures.append(dict(desc, kind="model-vs-numpy: error class", correspondence_only=True, model=str(md)[:80], numpy=str(npres)[:80]))
        else:
            want_src = [int(x) for x in np.asarray(npres).reshape(-1)]
            got_src = [int(np.ravel_multi_index(t, dense.shape)) for t in md[1]] if dense.ndim else [0] * len(md[1])
            if tuple(np.shape(npres)) != md[0] or want_src != got_src:
                failures.append(dict(desc, kind="model-vs-numpy: selection", correspondence_only=True, model=str(md)[:120], numpy=str((np.shape(npres), want_src))[:120]))
        # ---- finite-dimension-only item: a view
        if len(item) == len(shape) + ninf and shape and (force_view or rnd.random() < 0.25) and not nested:
            fitem = item[:len(shape)]; dist["view"] = dist.get("view", 0) + 1
            mv = parse_model(ask({"cmd": "index", "shape": list(shape), "dense": list(shape), "item": enc(fitem)}))
            try: v = s[fitem]
            except IndexError:
                if not isinstance(mv, str): failures.append(dict(desc, kind="view: unexpected IndexError"))
                evals += 1; continue
            except Exception as e:
                failures.append(dict(desc, kind="view: implementation-raises", error=type(e).__name__ + ": " + str(e)[:100])); continue
            evals += 1; distinct += 1
            if log: failures.append(dict(desc, kind="view: making the view evaluated elements", correspondence_only=True))
            if isinstance(mv, str):
                # numpy rejects the finite item: the real code may notice only when the view is used
                try: v[(0,) * len(v.shape) + (1,) * ninf]; failures.append(dict(desc, kind="view: invalid finite item accepted"))
                except (IndexError, ValueError): pass
                continue
            vshape, vsrc, _ = mv
            if not isinstance(v, BlockSeries) or v.n_infinite != ninf or tuple(v.shape) != vshape:
                failures.append(dict(desc, kind="view: shape", got=str(getattr(v, "shape", None)), want=str(vshape))); continue
            positions = list(itertools.product(*[range(n) for n in vshape]))
            orders = [tuple(rnd.randrange(top) for _ in range(ninf)) for _ in range(2)]
            for o in orders:
                # the model's view (what the packed series asks of its parent, reshaped) against NumPy's selection on the finite shape
                mvo = parse_model(ask({"cmd": "index", "shape": list(shape), "view": list(o), "item": enc(fitem)}))
                if isinstance(mvo, str) or mvo[0] != vshape or list(mvo[1]) != [tuple(src) + o for src in vsrc]:
                    failures.append(dict(desc, kind="model view vs model selection", correspondence_only=True, model=str(mvo)[:120]))
            for pos, src in zip(positions, vsrc):
                for o in orders:
                    w = dense[src + o]
                    try: g = v[pos + o]
                    except Exception as e:
                        failures.append(dict(desc, kind="view: reading an element raises", position=list(map(int, pos + o)), error=type(e).__name__ + ": " + str(e)[:100])); g = w
                    if not (g is w or g == w): failures.append(dict(desc, kind="view: element differs", position=list(pos + o), got=str(g), want=str(w))); break
            if len(set(log)) != len(log): failures.append(dict(desc, kind="view: element evaluated twice"))
            continue
        def bad_order(o):
            if isinstance(o, slice): return o.stop is None or any(b is not None and b < 0 for b in (o.start, o.stop))
            return bool(np.any(np.asarray(o) < 0))
        wrong_count = len(item) != len(shape) + ninf and not (len(item) == len(shape) and ninf)
        expect_err = any(bad_order(o) for o in item[len(shape):]) or wrong_count
        kind = "error-expected" if expect_err else "value"; dist[kind] = dist.get(kind, 0) + 1
        mg = parse_model(ask({"cmd": "index", "shape": list(shape), "ninf": ninf, "item": enc(item)})) if not nested else None
        if len(item) == len(shape) and ninf: mg = None           # (a view: handled above when chosen; otherwise nothing is evaluated)
        if expect_err and mg is not None and mg != "err index":
            failures.append(dict(desc, kind="model accepts a negative or infinite order", correspondence_only=True, model=str(mg)[:80]))
        try:
            got = s[item]
        except IndexError as e:
            if not expect_err:
                try: dense[item]; failures.append(dict(desc, kind="unexpected-IndexError", error=str(e)[:100]))
                except IndexError: pass                       # numpy rejects it as well (e.g. mismatched list lengths)
            if mg is not None and mg != "err index":
                failures.append(dict(desc, kind="model-vs-implementation: the model accepts what the code rejects", correspondence_only=True, model=str(mg)[:80]))
            if log: failures.append(dict(desc, kind="rejected request evaluated elements", evaluated=[list(map(int, i)) for i in log[:4]]))
            evals += 1; continue
        except Exception as e:
            failures.append(dict(desc, kind="implementation-raises", error=type(e).__name__ + ": " + str(e)[:100])); continue
        evals += 1; distinct += 1
        if expect_err:
            failures.append(dict(desc, kind="negative-or-infinite-order-accepted", got=str(got)[:80])); continue
        if isinstance(got, BlockSeries): continue                # finite-only item not chosen for the view comparison
        if mg is None: pass
        elif isinstance(mg, str):
            failures.append(dict(desc, kind="model-vs-implementation: the model rejects what the code accepts", correspondence_only=True, model=mg)); continue
        mshape, msrc, mev = mg if mg is not None else (tuple(np.shape(got)), None, None)
        if mg is None: pass
        elif tuple(np.shape(got)) != mshape:
            failures.append(dict(desc, kind="model-vs-implementation: result shape", correspondence_only=True, model=str(mshape), got=str(np.shape(got))))
        elif [dense[t] for t in msrc] != list(np.ma.filled(got, zero).reshape(-1) if isinstance(got, np.ma.MaskedArray) else np.asarray(got, dtype=object).reshape(-1)):
            failures.append(dict(desc, kind="model-vs-implementation: entries", correspondence_only=True))
        if mg is not None and (sorted(set(log)) != mev or len(log) != len(mev)):
            failures.append(dict(desc, kind="model-vs-implementation: evaluated elements", correspondence_only=True, model=str(mev)[:120], got=str(log)[:120]))
        want = dense[item]
        if isinstance(want, np.ndarray):
            g = np.ma.filled(got, zero) if isinstance(got, np.ma.MaskedArray) else np.asarray(got, dtype=object)
            ok = g.shape == want.shape and all(a is b or a == b for a, b in zip(g.reshape(-1), want.reshape(-1)))
            if ok and isinstance(got, np.ma.MaskedArray):
                ok = all(bool(m) == (v is zero) for m, v in zip(np.ma.getmaskarray(got).reshape(-1), want.reshape(-1)))
        else:
            ok = got is want or got == want
        if not ok: failures.append(dict(desc, kind="differs-from-numpy", got=str(got)[:120], want=str(want)[:120]))
        if len(set(log)) != len(log): failures.append(dict(desc, kind="element-evaluated-twice"))
        # exactly the selected elements are evaluated: nothing outside the selection (lazy), nothing of it skipped
        selected = set(int(x) for x in np.atleast_1d(flat[item]).reshape(-1))
        evaluated = set(int(np.ravel_multi_index(tuple(int(x) for x in idx), dense.shape)) for idx in log)
        if evaluated != selected:
            extra = sorted(evaluated - selected)[:5]; missing = sorted(selected - evaluated)[:5]
            failures.append(dict(desc, kind="evaluated-set-differs-from-selection", correspondence_only=not missing, extra=[list(map(int, np.unravel_index(x, dense.shape))) for x in extra],
                                 missing=[list(map(int, np.unravel_index(x, dense.shape))) for x in missing]))
        n0 = len(log)
        try: s[item]
        except Exception as e: failures.append(dict(desc, kind="repeated-request-raises", error=str(e)[:100]))
        if len(log) != n0: failures.append(dict(desc, kind="cached-element-evaluated-again"))
    proc.stdin.close()
    json.dump({"evaluations": evals, "cases": ncases, "distinct_nontrivial": distinct, "failures": failures, "distribution": dist, "samples": samples}, open(out, "w"))

if __name__ == "__main__":
    main(int(sys.argv[1]), int(sys.argv[2]), sys.argv[3], sys.argv[4])
