"""Direct, unoptimised interpreter of the series mini-language (DESIGN.md Appendix B).
Values: numpy matrices or None (= zero) ; 'one' handled as identity matrices by caller."""
import ast, itertools, numpy as np

class Prog:
    def __init__(self, series, products, outputs): self.series, self.products, self.outputs = series, products, outputs

def parse(path, fname):
    tree = ast.parse(open(path).read())
    fn = next(n for n in tree.body if isinstance(n, ast.FunctionDef) and n.name == fname)
    series, products, outputs = {}, {}, []
    for node in fn.body:
        if isinstance(node, ast.With):
            name = node.items[0].context_expr.value
            if "@" in name:
                herm = any(isinstance(b, ast.Expr) and isinstance(b.value, ast.Name) and b.value.id == "hermitian" for b in node.body)
                products[name] = (name.split(" @ "), herm)
            else:
                start, stmts = None, []
                for b in node.body:
                    if isinstance(b, ast.Assign): start = b.value.value
                    elif isinstance(b, ast.Expr) and isinstance(b.value, ast.Name) and b.value.id in ("hermitian", "antihermitian"):
                        stmts.append(("marker", b.value.id))
                    elif isinstance(b, ast.Pass): pass
                    elif isinstance(b, ast.If): stmts.append((b.test.id, b.body[0].value))
                    elif isinstance(b, ast.Expr): stmts.append(("default", b.value))
                series[name] = (start, stmts)
        elif isinstance(node, ast.Return):
            outputs = [e.value for e in node.value.elts] if isinstance(node.value, ast.Tuple) else [node.value.value]
    return Prog(series, products, outputs)

class Interp:
    """inputs: dict name -> function(index)->value ; scope: dict of functions/flags; nblocks; ninf; blockdims"""
    def __init__(self, prog, inputs, scope, nblocks, ninf, dims, adj=lambda x: x.conj().T, mul=lambda a,b: a@b):
        self.p, self.inputs, self.scope, self.N, self.k, self.dims = prog, inputs, scope, nblocks, ninf, dims
        self.adj, self.mul = adj, mul
        self.memo = {}
    def start(self, name, idx):
        st = self.p.series[name][0]
        i, j, n = idx[0], idx[1], idx[2:]
        if any(n): return False, None
        if st == 0: return True, None
        if st == 1:
            return (True, np.eye(self.dims[i])) if i == j else (False, None)
        if isinstance(st, str):
            src = st[:-2]  # "<input>_0"
            return True, self.inputs[src](idx)
        return False, None
    def get(self, name, idx):
        key = (name, idx)
        if key in self.memo:
            v = self.memo[key]
            if v is Ellipsis: raise RecursionError(f"cycle at {key}")
            return v
        self.memo[key] = Ellipsis
        if name in self.inputs: v = self.inputs[name](idx)
        elif name in self.p.products: v = self.product(name, idx)
        else: v = self.series(name, idx)
        self.memo[key] = v
        return v
    def known_zero_at_start(self, name, idx):
        if name in self.p.series:
            pinned, v = self.start(name, idx)
            if pinned and v is None: return True
        return False
    def product(self, name, idx):
        terms, herm = self.p.products[name]
        return self.prod_terms(terms, idx)
    def prod_terms(self, terms, idx):
        # left associated plain Cauchy product (no shortcuts)
        i, j, n = idx[0], idx[1], idx[2:]
        if len(terms) == 1: return self.get(terms[0], idx)
        left, right = terms[:-1], terms[-1]
        tot = None
        for m in range(self.N):
            for a in itertools.product(*[range(x + 1) for x in n]):
                b = tuple(x - y for x, y in zip(n, a))
                li, ri = (i, m) + a, (m, j) + b
                cost = lambda o: int(np.prod([(x + 1) ** 2 for x in o])) if len(o) else 1
                getl = (lambda: self.prod_terms(left, li)) if len(left) > 1 else (lambda: self.get(left[0], li))
                getr = lambda: self.get(right, ri)
                if len(left) == 1 and self.known_zero_at_start(left[0], li): continue
                if self.known_zero_at_start(right, ri): continue
                if cost(a) <= cost(b):
                    l = getl()
                    if l is None: continue
                    r = getr()
                    if r is None: continue
                else:
                    r = getr()
                    if r is None: continue
                    l = getl()
                    if l is None: continue
                t = self.mul(l, r)
                tot = t if tot is None else tot + t
        return tot
    def series(self, name, idx):
        pinned, v = self.start(name, idx)
        if pinned: return v
        i, j = idx[0], idx[1]
        res = None
        def add(a, b):
            if a is None: return b
            if b is None: return a
            return a + b
        for kind, payload in self.p.series[name][1]:
            if kind == "marker":
                if i > j:
                    v = self.get(name, (j, i) + idx[2:])
                    v = None if v is None else self.adj(v)
                    if payload == "antihermitian" and v is not None: v = -v
                    return add(res, v)
            elif kind == "lower":
                if i > j: return add(res, self.ev(payload, idx))
            elif kind == "diagonal":
                if i == j:
                    v = self.ev(payload, idx)
                    res = add(res, self.scope["diag"](v, idx))
            elif kind == "offdiagonal":
                if i != j: res = add(res, self.ev(payload, idx))
                elif self.scope.get("offdiag") is not None:
                    res = add(res, self.scope["offdiag"](self.ev(payload, idx), idx))
            else:
                res = add(res, self.ev(payload, idx))
        return res
    def ev(self, e, idx):
        if isinstance(e, ast.Constant) and isinstance(e.value, str): return self.get(e.value, idx)
        if isinstance(e, ast.Attribute):
            v = self.get(e.value.value, (idx[1], idx[0]) + idx[2:]); return None if v is None else self.adj(v)
        if isinstance(e, ast.Name) and e.id == "zero": return None
        if isinstance(e, ast.UnaryOp):
            v = self.ev(e.operand, idx); return None if v is None else -v
        if isinstance(e, ast.BinOp):
            if isinstance(e.op, ast.Div):
                v = self.ev(e.left, idx); k = ast.literal_eval(e.right)
                return None if v is None else v / k
            a, b = self.ev(e.left, idx), self.ev(e.right, idx)
            if isinstance(e.op, ast.Sub): b = None if b is None else -b
            if a is None: return b
            if b is None: return a
            return a + b
        if isinstance(e, ast.IfExp):
            t = e.test
            if isinstance(t, ast.Name): flag = self.scope[t.id]
            else: flag = self.scope[t.value.id][idx[0]]
            return self.ev(e.body if flag else e.orelse, idx)
        if isinstance(e, ast.Call):
            f = self.scope[e.func.id]
            # the arguments in the order they are written: a series name is handed over as the series, anything else as its value at `idx`
            args = [("series", a.value) if isinstance(a, ast.Constant) and isinstance(a.value, str) else self.ev(a, idx) for a in e.args]
            return f(*args, idx)
        raise NotImplementedError(ast.dump(e))
