"""NOF tie: real NumberOrderedForm arithmetic (optionally the patched scratch copy) vs Lean model vs Fock oracle."""
import os, sys; sys.path.insert(0, os.path.dirname(os.path.abspath(__file__)))
from common import case_rnd, skip
import sys, json, random, subprocess, itertools, warnings
from fractions import Fraction
warnings.simplefilter("ignore")
import os
sys.path.insert(0, os.path.dirname(os.path.dirname(os.path.abspath(__file__))))
import sympy
from sympy.physics.quantum import Dagger
from sympy.physics.quantum.boson import BosonOp
from sympy.physics.quantum.fermion import FermionOp
from sympy.physics.quantum import pauli
import pymablock
from pymablock.number_ordered_form import NumberOrderedForm as NOF, NumberOperator, LadderOp, _number_operator_to_placeholder
from fock import apply_gen, nof_apply

DRIVER = None
KIND = {'b': BosonOp, 'l': LadderOp, 's': pauli.SigmaMinus, 'f': FermionOp}
ORDER = {'b': 0, 'l': 1, 's': 2, 'f': 3}

def gen_expr(rnd, nm, depth):
    r = rnd.random()
    if depth == 0 or r < 0.35:
        r2 = rnd.random()
        if r2 < 0.6: return {"op": "gen", "mode": rnd.randrange(nm), "cr": rnd.random() < 0.5}
        if r2 < 0.8: return {"op": "num", "mode": rnd.randrange(nm)}
        if r2 < 0.9:
            if rnd.random() < 0.25:      # 1/(X + N + 1/2 - X) for a word X that is not number conserving: the argument conserves numbers only after cancellation
                return {"op": "invc", "mode": rnd.randrange(nm), "arg": {"op": "gen", "mode": rnd.randrange(nm), "cr": rnd.random() < 0.5}}
            return {"op": "fnum", "mode": rnd.randrange(nm), "kind": rnd.choice(FKINDS)}       # a function of a number operator
        return {"op": "const", "val": f"{rnd.choice([2, -1, 3])}/1,0/1"}
    if r < 0.08 + 0.35: return {"op": "pow", "base": gen_expr(rnd, nm, depth - 1), "exp": rnd.choice([2, 2, 3])}       # an integer power of a sub-expression
    if r < 0.75: return {"op": "mul", "args": [gen_expr(rnd, nm, depth - 1) for _ in range(rnd.randint(2, 3))]}
    if r < 0.9: return {"op": "add", "args": [gen_expr(rnd, nm, depth - 1) for _ in range(2)]}
    return {"op": "adj", "arg": gen_expr(rnd, nm, depth - 1)}

FKINDS = ["pow2", "inv", "abs", "sq", "abs0", "sqrtsq"]
def fnum_value(kind, n):
    if kind == "pow2": return Fraction(2) ** n
    if kind == "inv": return Fraction(2, 2 * n + 1)
    if kind == "abs": return Fraction(abs(n - 1))
    if kind in ("abs0", "sqrtsq"): return Fraction(abs(n))
    return Fraction(n + 1) ** 2
def fnum_expr(kind, N):
    if kind == "pow2": return sympy.Integer(2) ** N
    if kind == "inv": return 1 / (N + sympy.Rational(1, 2))
    if kind == "abs": return sympy.Abs(N - 1)
    if kind == "abs0": return sympy.Abs(N)
    if kind == "sqrtsq": return sympy.sqrt(N ** 2)          # = |N|: negative on no state, also for ladder modes
    return (N + 1) ** 2

def gen_leaf(rnd, nm, p_num=0.3):
    if rnd.random() < p_num: return {"op": "num", "mode": rnd.randrange(nm)} if rnd.random() < 0.7 else {"op": "fnum", "mode": rnd.randrange(nm), "kind": rnd.choice(FKINDS)}
    return {"op": "gen", "mode": rnd.randrange(nm), "cr": rnd.random() < 0.5}

def gen_word_pair(rnd, nm):
    """(left word) * (right word): the right operand is built first and carries several ladder operators,
    the left one number-dependent coefficients with surplus annihilators — the shapes unit tests never build"""
    left = [gen_leaf(rnd, nm, 0.4) for _ in range(rnd.randint(1, 3))]
    right = [gen_leaf(rnd, nm, 0.2) for _ in range(rnd.randint(2, 3))]
    w = lambda l: l[0] if len(l) == 1 else {"op": "mul", "args": l}
    return {"op": "mul", "args": [w(left), w(right)]}

def enum_cases():
    """exhaustive stratum: all (left word)·(right word) over the leaves of small signatures"""
    def leaves(nm): return [{"op": "gen", "mode": m, "cr": cr} for m in range(nm) for cr in (False, True)] + [{"op": "num", "mode": m} for m in range(nm)]
    def words(L, lo, hi): return [list(w) for k in range(lo, hi + 1) for w in itertools.product(L, repeat=k)]
    w = lambda l: l[0] if len(l) == 1 else {"op": "mul", "args": l}
    for spec, (llo, lhi), (rlo, rhi) in [([('b', 'a')], (1, 3), (1, 2)), ([('l', 'a')], (1, 3), (1, 2)), ([('f', 'c'), ('f', 'd')], (1, 1), (2, 2)),
                                         ([('s', 's'), ('f', 'c')], (1, 1), (2, 2))]:
        L = leaves(len(spec))
        for lw in words(L, llo, lhi):
            for rw in words(L, rlo, rhi):
                yield spec, {"op": "mul", "args": [w(lw), w(rw)]}
    # sums: (x + y) z, z (x + y), (x + y)^2, (x + y)^3 over the leaves of two-mode signatures of every statistics
    for spec in ([('b', 'a'), ('b', 'b')], [('b', 'a'), ('f', 'c')], [('l', 'a'), ('f', 'c')], [('f', 'c'), ('f', 'd')], [('s', 's'), ('f', 'c')], [('s', 's'), ('s', 't')]):
        L = leaves(len(spec))
        for x, y in itertools.combinations(L, 2):
            sm = {"op": "add", "args": [x, y]}
            for k in (2, 3): yield spec, {"op": "pow", "base": sm, "exp": k}
            for z in L:
                yield spec, {"op": "mul", "args": [sm, z]}
                yield spec, {"op": "mul", "args": [z, sm]}
    # numbered fermions (as strings `f_10` < `f_2` < `f_9`): a pair converted in one go, combined with a third leaf converted on its own
    spec = [('f', 'f_10'), ('f', 'f_2'), ('f', 'f_9')]; L = leaves(3); G = [x for x in L if x["op"] == "gen"]
    for x, y in itertools.permutations(G, 2):
        if x["mode"] == y["mode"]: continue
        pair = {"op": "whole", "arg": {"op": "mul", "args": [x, y]}}
        for z in L:
            if z["op"] == "gen" and z["mode"] in (x["mode"], y["mode"]) and (x["mode"] + y["mode"] + z["mode"]) % 2: continue     # (thin out)
            yield spec, {"op": "mul", "args": [pair, z]}
            yield spec, {"op": "add", "args": [z, pair]}
    # a term that vanishes identically (n_v v = 0 = v† n_v for a fermion or a spin v) next to terms in other modes, converted in one go:
    # the mode v is still a mode of the expression
    for spec in ([('f', 'c'), ('f', 'd')], [('s', 's'), ('f', 'c')], [('b', 'a'), ('f', 'c')], [('b', 'a'), ('s', 's')]):
        for v in range(2):
            if spec[v][0] not in "fs": continue
            for x in leaves(2):
                if x["mode"] == v: continue
                yield spec, {"op": "whole", "arg": {"op": "add", "args": [x, {"op": "mul", "args": [{"op": "num", "mode": v}, {"op": "gen", "mode": v, "cr": False}]}]}}
                yield spec, {"op": "whole", "arg": {"op": "add", "args": [{"op": "mul", "args": [{"op": "gen", "mode": v, "cr": True}, {"op": "num", "mode": v}]}, x]}}
    # functions of a number operator between generators, every kind, on a boson and on a ladder mode (whose numbers are negative too)
    for spec in ([('b', 'a')], [('l', 'a')]):
        L = leaves(1)
        for lw in L:
            for kind in FKINDS:
                for rw in L[:2]:
                    yield spec, {"op": "mul", "args": [lw, {"op": "fnum", "mode": 0, "kind": kind}, rw]}

def to_sympy(e, ops):
    """the expression as a SymPy expression (products keep their order: the operators do not commute)"""
    op = e["op"]
    if op == "gen": return Dagger(ops[e["mode"]]) if e["cr"] else ops[e["mode"]]
    if op == "num": return NumberOperator(ops[e["mode"]])
    if op == "fnum": return fnum_expr(e["kind"], NumberOperator(ops[e["mode"]]))
    if op == "const":
        re = e["val"].split(",")[0]; a, b = re.split("/"); return sympy.Rational(int(a), int(b))
    if op == "mul": return sympy.Mul(*[to_sympy(a, ops) for a in e["args"]])
    if op == "add": return sympy.Add(*[to_sympy(a, ops) for a in e["args"]])
    if op == "adj":
        # (SymPy's own `Dagger` of a non-integer power or an Abs of a number operator rewrites it through re/im of its *arguments* — not the expression any more;
        # below a function leaf the adjoint is written out term by term instead: these functions of N are real)
        if '"fnum"' in json.dumps(e["arg"]): return to_sympy(adj_expr(e["arg"]), ops)
        return Dagger(to_sympy(e["arg"], ops))
    if op == "pow": return to_sympy(e["base"], ops) ** sympy.Integer(e["exp"])
    raise ValueError(op)

def strip(e):
    """the expression without the markers "whole" (a sub-expression handed to `from_expr` as one SymPy expression)"""
    if isinstance(e, dict):
        if e.get("op") == "whole": return strip(e["arg"])
        return {k: strip(v) for k, v in e.items()}
    if isinstance(e, list): return [strip(v) for v in e]
    return e

def wrap_some(e, rnd, top=True):
    """mark some composite sub-expressions (not the whole expression, none with an Abs leaf or a cancelling argument) as converted in one go"""
    if not isinstance(e, dict) or e["op"] in ("gen", "num", "fnum", "const", "invc"): return e
    txt = json.dumps(e)
    if not top and rnd.random() < 0.5 and not any(t in txt for t in ('"abs"', '"abs0"', '"invc"')): return {"op": "whole", "arg": e}
    out = dict(e)
    for k in ("args", "arg", "base"):
        if k in out: out[k] = [wrap_some(a, rnd, False) for a in out[k]] if k == "args" else wrap_some(out[k], rnd, False)
    return out

def build(e, ops, how="full"):
    """build with the real NOF arithmetic, mirroring the AST association.  how = "full": every leaf is converted with the full list of operators;
    "auto": every leaf without a list (the operators are found in the leaf, the arithmetic has to merge the lists of its operands);
    "whole": the whole expression is handed to `from_expr` as one SymPy expression, without a list"""
    if how == "whole": return NOF.from_expr(to_sympy(strip(e), ops))
    lst = (ops,) if how == "full" else ()
    op = e["op"]
    if op == "whole": return NOF.from_expr(to_sympy(strip(e["arg"]), ops))
    if op == "gen": return NOF.from_expr(Dagger(ops[e["mode"]]) if e["cr"] else ops[e["mode"]], *lst)
    if op == "num": return NOF.from_expr(NumberOperator(ops[e["mode"]]), *lst)
    if op == "fnum": return NOF.from_expr(fnum_expr(e["kind"], NumberOperator(ops[e["mode"]])), *lst)
    if op == "invc":
        x = build(e["arg"], ops, how); y = (x + NOF.from_expr(NumberOperator(ops[e["mode"]]) + sympy.Rational(1, 2), *lst)) - x
        return y ** sympy.Integer(-1)
    if op == "const":
        re = e["val"].split(",")[0]; a, b = re.split("/"); return NOF.from_expr(sympy.Rational(int(a), int(b)), *lst)
    if op == "mul":
        fs = [build(a, ops, how) for a in e["args"]]; r = fs[0]
        for f in fs[1:]: r = r * f
        return r
    if op == "add":
        fs = [build(a, ops, how) for a in e["args"]]; r = fs[0]
        for f in fs[1:]: r = r + f
        return r
    if op == "adj": return build(e["arg"], ops, how).adjoint()
    if op == "pow": return build(e["base"], ops, how) ** sympy.Integer(e["exp"])
    raise ValueError(op)

def oracle(e, modes, vec):
    """independent Fock action of the expression on a vector {state: amp}"""
    op = e["op"]
    if op == "gen": return apply_gen(modes, e["mode"], e["cr"], vec)
    if op == "num": return {s: a * s[e["mode"]] for s, a in vec.items() if s[e["mode"]] != 0}
    if op == "fnum": return {s: a * fnum_value(e["kind"], s[e["mode"]]) for s, a in vec.items() if fnum_value(e["kind"], s[e["mode"]]) != 0}
    if op == "invc": return {s: a * fnum_value("inv", s[e["mode"]]) for s, a in vec.items()}
    if op == "const":
        a, b = e["val"].split(",")[0].split("/"); c = Fraction(int(a), int(b)); return {s: x * c for s, x in vec.items()}
    if op == "mul":
        for a in reversed(e["args"]): vec = oracle(a, modes, vec)
        return vec
    if op == "add":
        out = {}
        for a in e["args"]:
            for s, x in oracle(a, modes, vec).items(): out[s] = out.get(s, 0) + x
        return {s: x for s, x in out.items() if x != 0}
    if op == "adj": return oracle(adj_expr(e["arg"]), modes, vec)
    if op == "pow":
        for _ in range(e["exp"]): vec = oracle(e["base"], modes, vec)
        return vec
    raise ValueError(op)

def adj_expr(e):
    op = e["op"]
    if op == "gen": return {"op": "gen", "mode": e["mode"], "cr": not e["cr"]}
    if op in ("num", "const", "fnum", "invc"): return e
    if op == "mul": return {"op": "mul", "args": [adj_expr(a) for a in reversed(e["args"])]}
    if op == "add": return {"op": "add", "args": [adj_expr(a) for a in e["args"]]}
    if op == "adj": return e["arg"]
    if op == "pow": return {"op": "pow", "base": adj_expr(e["base"]), "exp": e["exp"]}

def parse_model(line):
    outs = []
    for tok in line.rstrip("\n").split("|"):
        d = {}
        if tok:
            for ent in tok.split(";"):
                st, amp = ent.split(":"); re = amp.split(",")[0]; a, b = re.split("/")
                d[tuple(int(x) for x in st.split(","))] = Fraction(int(a), int(b))
        outs.append(d)
    return outs

def show(d): return {",".join(map(str, s)): str(a) for s, a in d.items()}

def main(seed, ncases, driver, out):
    rnd = random.Random(seed)
    proc = subprocess.Popen([driver], stdin=subprocess.PIPE, stdout=subprocess.PIPE, text=True)
    failures = []; dist = {}; samples = []; distinct = set(); evals = 0
    enum = list(enum_cases())
    def case_stream():
        for spec, e in enum: yield spec, e, "enumerated"
        for _k in range(ncases):
            rnd = case_rnd(seed, len(enum) + _k)
            spec = rnd.choice([[('b', 'a')], [('f', 'c'), ('f', 'd')], [('f', 'c'), ('f', 'd'), ('f', 'e')], [('b', 'a'), ('f', 'c')],
                               [('l', 'a')], [('s', 's'), ('f', 'c')], [('b', 'a'), ('b', 'b')], [('s', 's'), ('s', 't')],
                               [('l', 'p'), ('b', 'a'), ('f', 'c'), ('f', 'd')], [('b', 'a'), ('s', 's')],
                               # modes of different kinds that carry the same label (a phonon b_k and an electron c_k, a cavity q and a qubit q)
                               [('b', 'k'), ('f', 'k')], [('b', 'q'), ('s', 'q')], [('l', 'a'), ('b', 'a'), ('f', 'a')], [('s', 'k'), ('f', 'k')],
                               # numbered modes: as strings `f_10` comes before `f_2` (the order of the operators of a form is by name, as a string)
                               [('f', 'f_2'), ('f', 'f_10')], [('f', 'f_10'), ('f', 'f_2'), ('f', 'f_9')], [('b', 'b_3'), ('f', 'f_2'), ('f', 'f_11')]])
            spec = sorted(spec, key=lambda m: (ORDER[m[0]], m[1]))
            yield spec, (gen_word_pair(rnd, len(spec)) if rnd.random() < 0.5 else gen_expr(rnd, len(spec), 3)), "random"
    for c, (spec, e, stratum) in enumerate(case_stream()):
        if skip(c): continue
        ops = [KIND[k](n) for k, n in spec]
        ph = [_number_operator_to_placeholder(NumberOperator(o)) for o in ops]
        ranges = [range(0, 4) if m[0] == 'b' else (range(-2, 3) if m[0] == 'l' else range(0, 2)) for m in spec]
        states = list(itertools.product(*ranges))
        marked = '"whole"' in json.dumps(e)
        if not marked and stratum == "random" and c % 4 == 3:
            e = wrap_some(e, case_rnd(seed, 7919 * c + 13)); marked = '"whole"' in json.dumps(e)
        e_build = e; e = strip(e)
        case = {"kinds": [m[0] for m in spec], "expr": e}
        key = stratum + ":" + "".join(m[0] for m in spec); dist[key] = dist.get(key, 0) + 1
        def to_model(x):
            if isinstance(x, dict):
                if x.get("op") == "invc": return {"op": "fnum", "mode": x["mode"], "kind": "inv"}
                return {k: to_model(v) for k, v in x.items()}
            if isinstance(x, list): return [to_model(v) for v in x]
            return x
        proc.stdin.write(json.dumps(dict(to_model(case), cmd="nof", states=[list(s) for s in states])) + "\n")
        proc.stdin.flush(); line = proc.stdout.readline()
        if line.startswith("bad"):
            failures.append({"case": c, "kind": "driver-rejected", "detail": line.strip(), "input": case}); continue
        model = parse_model(line)
        orc = [oracle(e, spec, {s: Fraction(1)}) for s in states]
        evals += len(states)
        if any(orc): distinct.add(json.dumps(case, sort_keys=True))
        if len(samples) < 2: samples.append(case)
        # how the forms get their list of operators: handed over, found leaf by leaf and merged by the arithmetic, or found in the whole expression
        how = "full" if '"invc"' in json.dumps(e) else ["full", "auto", "whole"][c % 3]
        if marked: how = "auto"; case["converted_in_one_go"] = e_build; dist["some sub-expressions converted in one go"] = dist.get("some sub-expressions converted in one go", 0) + 1
        if how == "whole" and ('"abs"' in json.dumps(e) or '"abs0"' in json.dumps(e)): how = "auto"      # (SymPy takes Abs(N) for a commuting factor and moves it: not the expression any more)
        dist["operators: " + how] = dist.get("operators: " + how, 0) + 1; case["operators"] = how
        try:
            x = build(e_build, ops, how)
        except ValueError as ex:
            if '"invc"' in json.dumps(case):      # refusing a function whose argument conserves numbers only after cancellation is allowed; a wrong value is not
                dist["refused: function of a cancelling argument"] = dist.get("refused: function of a cancelling argument", 0) + 1; continue
            failures.append({"case": c, "kind": "implementation-raises", "error": type(ex).__name__ + ": " + str(ex)[:120], "input": case}); continue
        except Exception as ex:
            failures.append({"case": c, "kind": "implementation-raises", "error": type(ex).__name__ + ": " + str(ex)[:120], "input": case}); continue
        try:
            impl = [nof_apply(spec, x, ops, ph, s) for s in states]
        except Exception as ex:
            failures.append({"case": c, "kind": "implementation-returns-a-form-without-a-value", "error": type(ex).__name__ + ": " + str(ex)[:120], "input": case}); continue
        if model != orc:
            k = next(i for i in range(len(states)) if model[i] != orc[i])
            failures.append({"case": c, "kind": "model-vs-oracle", "input": case, "state": list(states[k]), "model": show(model[k]), "oracle": show(orc[k])})
        elif impl != orc:
            k = next(i for i in range(len(states)) if impl[i] != orc[i])
            failures.append({"case": c, "kind": "property-fails-on-implementation", "input": case, "state": list(states[k]),
                             "impl": show(impl[k]), "oracle": show(orc[k]), "model_agrees_with_oracle": True})
    proc.stdin.close()
    json.dump({"evaluations": evals, "cases": ncases + len(enum), "enumerated": len(enum), "distinct_nontrivial": len(distinct), "failures": failures,
               "distribution": dist, "samples": samples}, open(out, "w"))

if __name__ == "__main__":
    main(int(sys.argv[1]), int(sys.argv[2]), sys.argv[3], sys.argv[4])
