"""C06 (and the implicit part of C16) on the real code: implicit mode against the explicit computation in a complete eigenbasis.

A case: a random sparse H_0 given through its eigen-decomposition (Hermitian: unitary Q; non-Hermitian: H_0 = S D S^-1 with left
vectors S^-H), explicit subspaces made of *arbitrarily ordered* eigenvectors (degenerate partners need not be adjacent, energies
need not ascend), the implicit block being the rest.  Solver: direct (default) — or, Hermitian mode, KPM with a requested
accuracy, optionally with `auxiliary_vectors` (exact eigenvectors of the implicit part handed to the hybrid solver).
Compared through order 3: H_tilde on all explicit blocks; U and U_inv on explicit-explicit blocks and on the explicit-implicit /
implicit-explicit blocks, where the implicit carrier is the ambient space: U_impl[i, B] = U_expl[i, B] L_B^H and
U_impl[B, i] = R_B U_expl[B, i] (the embedding of the explicit result in the complement of the explicit subspace).
Tolerance 1e-8 relative for the direct solver, 300 x the requested accuracy for KPM."""
import os, sys; sys.path.insert(0, os.path.dirname(os.path.abspath(__file__)))
from common import case_rnd, skip
import json, warnings
import numpy as np
from scipy import sparse
warnings.simplefilter("ignore")
from pymablock import block_diagonalize
from pymablock.series import zero, one

def gen(rnd, nh_only=False, close=False):
    N = rnd.randint(4, 8); cplx = rnd.random() < 0.5; herm = rnd.random() < 0.65
    if nh_only: herm = False; cplx = cplx or rnd.random() < 0.5       # (C05 stream: non-Hermitian mode, complex levels more often)
    rng = np.random.default_rng(rnd.randrange(2**31))
    def rand(shape): return rng.normal(size=shape) + (1j * rng.normal(size=shape) if cplx else 0)
    ev = rng.choice(np.arange(-12, 13), size=N, replace=False).astype(float) + rng.uniform(-0.2, 0.2, size=N)
    if not herm and cplx: ev = ev + 1j * rng.uniform(-1, 1, size=N)
    dA = rnd.randint(2, N - 2)
    # degeneracy patterns among the explicit levels (positions are shuffled afterwards)
    pat = rnd.choice(["none", "pair", "two-pairs", "pair"] + (["close-pair"] if close else []))      # (close pairs only for the implicit-vs-explicit comparison)
    if pat in ("pair", "two-pairs") and dA >= 2: ev[1] = ev[0]
    if pat == "close-pair": ev[1] = ev[0] + 10.0 ** -rnd.choice([9, 10, 11])      # two explicit levels far closer than anything else, yet far above the degeneracy tolerance
    if pat == "two-pairs" and dA >= 4: ev[3] = ev[2]
    structure = "generic"
    if herm and pat != "none" and dA >= 2 and N >= 4 and rnd.random() < 0.35:
        # a degenerate doublet of mirror-even states: equal amplitudes on mirror-related sites, so the heaviest rows of the kernel are linearly dependent
        structure = "mirror-even doublet"
        J = np.eye(N)[::-1]
        def even(v): return v + J @ v
        B0 = np.column_stack([even(rand((N,))), even(rand((N,)))] + [rand((N,)) for _ in range(N - 2)])
        Q, _ = np.linalg.qr(B0); R = Q; L = Q                      # the first two columns span the two mirror-even vectors
    elif herm and cplx and rnd.random() < 0.3:
        # the explicit eigenvectors are real arrays (unit vectors), the implicit block is complex: real right-hand sides meet complex Green's functions
        structure = "real explicit vectors, complex rest"
        QB, _ = np.linalg.qr(rand((N - dA, N - dA))); Q = np.eye(N, dtype=complex); Q[dA:, dA:] = QB; R = Q; L = Q
    elif herm:
        Q, _ = np.linalg.qr(rand((N, N))); R = Q; L = Q
    elif rnd.random() < 0.25:
        # a non-Hermitian H_0 whose explicit eigenvectors are orthonormal (left = right: handed over as single bases, not as pairs): complex levels on a
        # unitary basis, the implicit part a non-normal matrix S D S^-1 inside the orthogonal complement
        structure = "orthonormal explicit vectors, non-normal rest"; cplx = True
        Q, _ = np.linalg.qr(rng.normal(size=(N, N)) + 1j * rng.normal(size=(N, N))); nB = N - dA
        Q1, _ = np.linalg.qr(rng.normal(size=(nB, nB)) + 1j * rng.normal(size=(nB, nB))); Q2, _ = np.linalg.qr(rng.normal(size=(nB, nB)) + 1j * rng.normal(size=(nB, nB)))
        sv = rng.uniform(0.6, 1.6, size=nB); S_ = (Q1 * sv) @ Q2.conj().T; Sit = (Q1 / sv) @ Q2.conj().T
        ev = ev.astype(complex) + 1j * rng.uniform(-1, 1, size=N)
        R = Q.copy(); L = Q.copy(); R[:, dA:] = Q[:, dA:] @ S_; L[:, dA:] = Q[:, dA:] @ Sit
    elif rnd.random() < 0.2:
        # a weakly non-Hermitian problem: left and right vectors differ by a few 1e-7 — far above rounding, below every "close enough" tolerance
        structure = "nearly Hermitian (R, L)"
        Q0, _ = np.linalg.qr(rand((N, N))); G = rand((N, N)); R = Q0 @ (np.eye(N) + 3e-7 * G); L = np.linalg.inv(R).conj().T
    elif rnd.random() < 0.3 and N >= 4:
        # a real non-symmetric H_0 with complex-conjugate pairs of levels; one member of a pair explicit, its partner implicit
        structure = "real H_0 with conjugate pairs"
        Q1, _ = np.linalg.qr(rng.normal(size=(N, N))); Q2, _ = np.linalg.qr(rng.normal(size=(N, N))); sv = rng.uniform(0.6, 1.6, size=N)
        T = (Q1 * sv) @ Q2.T; Tit = (Q1 / sv) @ Q2.T                    # T and T^-T
        npairs = rnd.randint(1, (N - 1) // 2); W = np.eye(N, dtype=complex); ev = ev.real.astype(complex)
        slots = [(k, N - 1 - k) for k in range(npairs)]                 # partner of the explicit level k sits at the far end (implicit)
        for (a_, b_) in slots:
            im = rng.uniform(0.3, 1.5); ev[a_] = ev[a_].real + 1j * im; ev[b_] = ev[a_].conjugate()
            W[np.ix_([a_, b_], [a_, b_])] = np.array([[1, 1], [1j, -1j]]) / np.sqrt(2)
        R = T @ W; L = Tit @ W; cplx = True
    else:
        # a well-conditioned non-unitary basis: S = Q1 diag(s) Q2^H with s in [0.6, 1.6]; L = S^-H = Q1 diag(1/s) Q2^H, so L^H R = 1
        Q1, _ = np.linalg.qr(rand((N, N))); Q2, _ = np.linalg.qr(rand((N, N))); sv = rng.uniform(0.6, 1.6, size=N)
        R = (Q1 * sv) @ Q2.conj().T; L = (Q1 / sv) @ Q2.conj().T
    H0 = (R * ev) @ L.conj().T
    if structure == "real H_0 with conjugate pairs":
        assert np.abs(H0.imag).max() < 1e-12; H0 = H0.real.copy()
    order = list(range(dA)); rnd.shuffle(order)                                          # arbitrary order of the explicit vectors
    split = rnd.random() < 0.5 and dA >= 3
    if split:
        cut = rnd.randint(1, dA - 1); parts = [order[:cut], order[cut:]]
        # a degenerate level split over two coupled subspaces would be ill-posed: keep partners together
        for a, b in ((0, 1), (2, 3)):
            if a < dA and b < dA and (ev[a] == ev[b] or (pat == "close-pair" and (a, b) == (0, 1))):
                pa = 0 if a in parts[0] else 1
                if b not in parts[pa]:
                    parts[1 - pa].remove(b); parts[pa].append(b)
        parts = [p for p in parts if p]
    else:
        parts = [order]
    # a real H_0 (real factorisations of E - H_0) under a complex Hermitian perturbation: complex right-hand sides for real Green's functions
    cpert = close and herm and not cplx and structure == "generic" and rnd.random() < 0.35
    if cpert: structure = "real H_0, complex perturbation"
    # a non-Hermitian H_0 (left and right vectors differ) under perturbations that are Hermitian matrices in the frame they are given in (a lossy system, a Hermitian drive)
    hpert = close and not herm and rnd.random() < 0.35
    if hpert: structure += ", Hermitian perturbation"
    def pert(scale):
        m = rand((N, N)) if structure != "real explicit vectors, complex rest" else rng.normal(size=(N, N))
        if cpert: m = m + 1j * rng.normal(size=(N, N))
        return scale * ((m + m.conj().T) / 2 if (herm or hpert) else m)
    solver = "direct"
    if herm and rnd.random() < 0.3: solver = rnd.choice(["kpm", "kpm-aux"])
    fd = tuple(b for b in range(len(parts)) if rnd.random() < 0.3)
    if pat == "close-pair":      # (eliminating the coupling inside the close pair divides by the splitting: rounding amplified beyond the tolerance of the comparison, in both runs)
        fd = tuple(b for b in fd if 0 not in parts[b]); solver = "direct"
    return dict(N=N, cplx=cplx, herm=herm, ev=ev, R=R, L=L, H0=H0, H1=pert(0.5), H2=(pert(0.3) if rnd.random() < 0.4 else None), dA=dA, parts=parts,
                fd=fd, solver=solver, pattern=pat, structure=structure, cplx_pert=cpert)

def dense(v, shape):
    if v is zero: return np.zeros(shape, dtype=complex)
    if v is one: return np.eye(shape[0], dtype=complex)
    if hasattr(v, "toarray"): v = v.toarray()
    if hasattr(v, "matmat") and not isinstance(v, np.ndarray): v = v @ np.eye(v.shape[1])
    return np.asarray(v, dtype=complex).reshape(shape)

def main(seed, ncases, driver, out, mode="all"):
    failures = []; dist = {}; samples = []; evals = 0; distinct = 0; worst = {"direct": 0.0, "kpm": 0.0}
    for c in range(ncases):
        if skip(c): continue
        rnd = case_rnd(seed, c); P = gen(rnd, mode == "nh", close=True)
        # two strata that every run contains (they used to be met by chance only): a dense complex Hermitian H_0 under the KPM solver with a tight requested
        # accuracy; a real H_0 under a complex perturbation in very small units with the direct solver
        forced = {7: "dense-complex-kpm", 13: "real-h0-complex-perturbation-small-units"}.get(c % 20) if mode != "nh" else None
        if forced == "dense-complex-kpm":
            for _ in range(60):
                if P["herm"] and P["cplx"] and P["structure"] == "generic" and P["pattern"] != "close-pair": break
                P = gen(rnd, False, close=True)
            else: forced = None
            if forced: P["solver"] = "kpm"
        if forced == "real-h0-complex-perturbation-small-units":
            for _ in range(400):
                if P["structure"] == "real H_0, complex perturbation" and P["pattern"] != "close-pair": break
                P = gen(rnd, False, close=True)
            else: forced = None
            if forced: P["solver"] = "direct"
        N = P["N"]; R, L = P["R"], P["L"]; herm = P["herm"]
        # carriers: sparse arrays, or the dense arrays themselves (then also: the caller's arrays must come back unchanged)
        dense_in = rnd.random() < 0.3 or forced == "dense-complex-kpm"
        conv = (lambda m: np.array(m if np.abs(np.asarray(m).imag).max() > 0 else np.asarray(m).real)) if dense_in else sparse.csr_array
        # other energy units: the whole Hamiltonian times a power of two (exact), `atol` in the same units; U does not change, H_tilde scales along
        # (the KPM solver reads its option `atol` twice — as the accuracy of the rescaled, dimensionless expansion and as the energy tolerance of the
        # explicit part —, so its problems stay in units where both readings are harmless)
        unit = 2.0 ** (rnd.choice([0, 0, 0, -23, -40, 20]) if P["solver"] == "direct" else rnd.choice([0, 0, -13, 20]))
        if forced == "real-h0-complex-perturbation-small-units": unit = 2.0 ** -40
        if forced == "dense-complex-kpm": unit = 1.0
        H = {(0,): conv(P["H0"] * unit), (1,): conv(P["H1"] * unit)}
        if P["H2"] is not None: H[(2,)] = conv(P["H2"] * unit)
        before = {n: (m.tobytes() if dense_in else (m.data.tobytes(), m.indices.tobytes(), m.indptr.tobytes())) for n, m in H.items()}
        rest = list(range(P["dA"], N))
        def realify(v): return v.real.copy() if np.abs(v.imag).max() == 0 else v
        single = P["structure"] == "orthonormal explicit vectors, non-normal rest"
        def basis(idx): return realify(R[:, idx]) if herm else (R[:, idx] if single and idx is not rest else (R[:, idx], L[:, idx]))
        vecsA = [basis(p) for p in P["parts"]]
        key = f"{P['structure']}: {'dense' if dense_in else 'sparse'} {P['solver']} hermitian={herm} complex={P['cplx']} explicit={len(P['parts'])} degeneracy={P['pattern']} fd={bool(P['fd'])}"
        dist[key] = dist.get(key, 0) + 1
        if forced: dist["forced: " + forced] = dist.get("forced: " + forced, 0) + 1
        desc = {"case": c, "seed": seed, "N": N, "dA": P["dA"], "parts": P["parts"], "complex": P["cplx"], "hermitian": herm, "fd": list(P["fd"]),
                "solver": P["solver"], "explicit_energies": [complex(P["ev"][a]).real for a in sum(P["parts"], [])]}
        if len(samples) < 3: samples.append(desc)
        kw = {}; tol = 1e-8; kind = "direct"
        if unit != 1.0: kw["atol"] = 1e-12 * unit; key += f" units=2^{int(np.log2(unit))}"; dist[key] = dist.get(key, 0) + 1
        if P["solver"] != "direct":
            kind = "kpm"; acc = 1e-9 if forced == "dense-complex-kpm" else 1e-7; tol = 300 * acc
            kw.update(direct_solver=False, solver_options={"atol": acc})
            if P["solver"] == "kpm-aux":
                naux = rnd.randint(1, max(1, len(rest) - 1)); kw["solver_options"]["auxiliary_vectors"] = R[:, rest[:naux]]
        try:
            Hi, Ui, Vi = block_diagonalize(H, subspace_eigenvectors=vecsA, fully_diagonalize=P["fd"], hermitian=herm, **kw)
            He, Ue, Ve = block_diagonalize(H, subspace_eigenvectors=vecsA + [basis(rest)], fully_diagonalize=P["fd"], hermitian=herm, **({"atol": kw["atol"]} if "atol" in kw else {}))
            nb = len(P["parts"]); bad = None
            def cmp(what, a, b, n, blk):
                nonlocal bad, evals
                if what == "H_tilde": a = a / unit; b = b / unit
                err = float(np.abs(a - b).max()) if a.size else 0.0; evals += 1; worst[kind] = max(worst[kind], err / (1 + float(np.abs(b).max()) if b.size else 1))
                if not err <= tol * (1 + (float(np.abs(b).max()) if b.size else 0)): bad = bad or {"series": what, "block": blk, "order": n, "err": err}
            for n in range(0, 4):
                for i in range(nb):
                    si = len(P["parts"][i])
                    for j in range(nb):
                        sj = len(P["parts"][j])
                        cmp("H_tilde", dense(Hi[i, j, n], (si, sj)), dense(He[i, j, n], (si, sj)), n, [i, j])
                        cmp("U", dense(Ui[i, j, n], (si, sj)), dense(Ue[i, j, n], (si, sj)), n, [i, j])
                        cmp("U_inv", dense(Vi[i, j, n], (si, sj)), dense(Ve[i, j, n], (si, sj)), n, [i, j])
                    if n >= 1:     # blocks that involve the implicit subspace live in the ambient space
                        LB = L[:, rest]; RB = R[:, rest]
                        cmp("U", dense(Ui[i, nb, n], (si, N)), dense(Ue[i, nb, n], (si, len(rest))) @ LB.conj().T, n, [i, nb])
                        cmp("U_inv", dense(Vi[i, nb, n], (si, N)), dense(Ve[i, nb, n], (si, len(rest))) @ LB.conj().T, n, [i, nb])
                        cmp("U", dense(Ui[nb, i, n], (N, si)), RB @ dense(Ue[nb, i, n], (len(rest), si)), n, [nb, i])
                        cmp("U_inv", dense(Vi[nb, i, n], (N, si)), RB @ dense(Ve[nb, i, n], (len(rest), si)), n, [nb, i])
                if n >= 1:     # the implicit-implicit block: linear operators on the ambient space, the explicit result embedded in the complement
                    LB = L[:, rest]; RB = R[:, rest]; nr = len(rest)
                    cmp("H_tilde", dense(Hi[nb, nb, n], (N, N)), RB @ dense(He[nb, nb, n], (nr, nr)) @ LB.conj().T, n, [nb, nb])
                    cmp("U", dense(Ui[nb, nb, n], (N, N)), RB @ dense(Ue[nb, nb, n], (nr, nr)) @ LB.conj().T, n, [nb, nb])
                    cmp("U_inv", dense(Vi[nb, nb, n], (N, N)), RB @ dense(Ve[nb, nb, n], (nr, nr)) @ LB.conj().T, n, [nb, nb])
            distinct += 1
            after = {n: (m.tobytes() if dense_in else (m.data.tobytes(), m.indices.tobytes(), m.indptr.tobytes())) for n, m in H.items()}
            if after != before: failures.append(dict(desc, kind="caller-data-mutated", terms=[list(n) for n in H if after[n] != before[n]], dense=dense_in))
            if bad: failures.append(dict(desc, kind="implicit-differs-from-explicit", **bad))
        except Exception as e:
            failures.append(dict(desc, kind="implementation-raises", error=type(e).__name__ + ": " + str(e)[:150]))
    json.dump({"evaluations": evals, "cases": ncases, "distinct_nontrivial": distinct, "failures": failures, "distribution": dist,
               "samples": samples, "worst_abs_error": max(worst.values()), "extra": {"worst_relative_error": worst}}, open(out, "w"), default=str)

if __name__ == "__main__":
    main(int(sys.argv[1]), int(sys.argv[2]), sys.argv[3], sys.argv[4], *sys.argv[5:6])
