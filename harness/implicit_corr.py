"""C06 direct comparison on the real code: implicit mode (partial eigenvectors, direct solver) vs the explicit
computation in the complete eigenbasis.  Structured output as the other harnesses."""
import os, sys; sys.path.insert(0, os.path.dirname(os.path.abspath(__file__)))
from common import case_rnd, skip
import sys, json, random, time, warnings
import numpy as np
from scipy import sparse
warnings.simplefilter("ignore")
from pymablock import block_diagonalize
from pymablock.series import zero, one

def gen(rnd):
    N = rnd.randint(4, 8); cplx = rnd.random() < 0.5
    rng = np.random.default_rng(rnd.randrange(2**31))
    def herm():
        m = rng.normal(size=(N, N)) + (1j * rng.normal(size=(N, N)) if cplx else 0)
        return (m + m.conj().T) / 2
    ev = np.sort(rng.choice(np.arange(-12, 13), size=N, replace=False)).astype(float) + rng.uniform(-0.2, 0.2, size=N)
    if rnd.random() < 0.3: ev[1] = ev[0]                       # a degenerate explicit level
    q, _ = np.linalg.qr(rng.normal(size=(N, N)) + (1j * rng.normal(size=(N, N)) if cplx else 0))
    H0 = (q * ev) @ q.conj().T
    dA = rnd.randint(2, N - 2); split = rnd.random() < 0.5 and dA >= 3
    parts = [list(range(dA))] if not split else [list(range(2)), list(range(2, dA))]
    fd = tuple(b for b in range(len(parts)) if rnd.random() < 0.3)
    return dict(N=N, cplx=cplx, H0=H0, H1=herm() * 0.5, H2=(herm() * 0.3 if rnd.random() < 0.4 else None), q=q, dA=dA, parts=parts, fd=fd)

def dense(v, shape):
    if v is zero: return np.zeros(shape, dtype=complex)
    if hasattr(v, "toarray"): v = v.toarray()
    if hasattr(v, "matmat") and not isinstance(v, np.ndarray): v = v @ np.eye(v.shape[1])
    return np.asarray(v, dtype=complex)

def main(seed, ncases, driver, out):
    rnd = random.Random(seed); failures = []; dist = {}; samples = []; evals = 0; distinct = 0; worst = 0.0
    for c in range(ncases):
        if skip(c): continue
        rnd = case_rnd(seed, c)
        P = gen(rnd); q = P["q"]; N = P["N"]
        H = {(0,): sparse.csr_array(P["H0"]), (1,): sparse.csr_array(P["H1"])}
        if P["H2"] is not None: H[(2,)] = sparse.csr_array(P["H2"])
        vecsA = [q[:, p] for p in P["parts"]]; vecB = q[:, P["dA"]:]
        key = f"N={N} explicit blocks={len(P['parts'])} complex={P['cplx']} fd={P['fd']}"; dist[key] = dist.get(key, 0) + 1
        desc = {"N": N, "dA": P["dA"], "parts": P["parts"], "complex": P["cplx"], "fd": list(P["fd"]), "np_seed_case": c, "seed": seed}
        if len(samples) < 2: samples.append(desc)
        try:
            Hi, Ui, _ = block_diagonalize(H, subspace_eigenvectors=vecsA, fully_diagonalize=P["fd"])
            He, Ue, _ = block_diagonalize(H, subspace_eigenvectors=vecsA + [vecB], fully_diagonalize=P["fd"])
            nb = len(P["parts"]); bad = None
            for n in range(0, 4):
                for i in range(nb):
                    for j in range(nb):
                        shape = (len(P["parts"][i]), len(P["parts"][j]))
                        a = dense(Hi[i, j, n], shape); b = dense(He[i, j, n], shape); evals += 1
                        err = np.abs(a - b).max() if a.size else 0.0; worst = max(worst, err)
                        if err > 1e-8 * (1 + np.abs(b).max()): bad = bad or {"series": "H_tilde", "block": [i, j], "order": n, "err": float(err)}
                    if n >= 1:                                 # explicit–implicit block of U: implicit carrier is dA x N
                        shape_i = (len(P["parts"][i]), N); a = dense(Ui[i, nb, n], shape_i)
                        b = dense(Ue[i, nb, n], (len(P["parts"][i]), N - P["dA"])) @ vecB.conj().T; evals += 1
                        err = np.abs(a - b).max(); worst = max(worst, err)
                        if err > 1e-8 * (1 + np.abs(b).max()): bad = bad or {"series": "U", "block": [i, nb], "order": n, "err": float(err)}
            distinct += 1
            if bad: failures.append(dict(desc, kind="implicit-differs-from-explicit", **bad))
        except Exception as e:
            failures.append(dict(desc, kind="implementation-raises", error=type(e).__name__ + ": " + str(e)[:150]))
    json.dump({"evaluations": evals, "cases": ncases, "distinct_nontrivial": distinct, "failures": failures, "distribution": dist,
               "samples": samples, "worst_abs_error": worst}, open(out, "w"))

if __name__ == "__main__":
    main(int(sys.argv[1]), int(sys.argv[2]), sys.argv[3], sys.argv[4])
