#!/usr/bin/env python3
"""Write MANIFEST.json from the runner's property table (one source of truth)."""
import json, pathlib, importlib.machinery, importlib.util
ROOT = pathlib.Path(__file__).resolve().parent.parent
ld = importlib.machinery.SourceFileLoader("chk", str(ROOT / "check"))
sp = importlib.util.spec_from_loader("chk", ld); chk = importlib.util.module_from_spec(sp); ld.exec_module(chk)

BASE = ("Trusted: Lean 4 kernel; axioms propext, Classical.choice, Quot.sound only (audited by #print axioms on every run, no sorry / native_decide / own axioms); "
        "tools/translate.py + tools/dump_compiled.py (their output is pinned by kernel-checked decide facts); the correspondence harnesses and their oracles; "
        "NumPy / SciPy / SymPy on the implementation side. ")
NOTES = {
 "C01": "Full theorem for every accepted problem of the model (both flag settings). Floating point: the identity is tolerance-tested against the exact model value (1e-9 relative), not proved.",
 "C02": "Full theorem for the model; floating point tolerance-tested.",
 "C03": "Full theorem (gauge + uniqueness) for the model; the independent order-by-order solver of the statement is replaced by the uniqueness theorem (any solver satisfying the defining equations returns the same series).",
 "C04": "Power-trace and characteristic-polynomial forms proved for the model (all orders; truncation for power traces); the analytic statement about numerical eigenvalues of a float matrix is not modelled.",
 "C05": "PARTIAL: proved only for problems whose kept pairs are degenerate; the full statement is refuted by a kernel-checked counterexample = known finding D5 (KNOWN-FINDING line, exit 0).",
 "C06": "PARTIAL: theorem for any environment meeting ImplicitSpec (Hermitian algorithm); the equation and range clauses of its solver part follow from the contract of direct_greens_function (C06_ambient_solution_meets_spec with C16's row/column assembly); that the code's whole implicit environment (projector products for the inputs, sparse LU, KPM) meets it, and the non-Hermitian algorithm, rest on the correspondence.",
 "C07": "PARTIAL: operator-algebra and solver theorems + generic naturality; the naturality instance for the Fock representation is not proved; eleven fixed and generated systems (mixed statistics, masks incl. symbolic powers, both algorithms) compared with Fock matrices through order 3.",
 "C08": "Full theorems on the model of NumberOrderedForm (representation invariant WF2, fermions last); SymPy simplification and non-polynomial functions of number operators are not modelled.",
 "C09": "Proof for the shipped programs (regenerated data); arbitrary programs by correspondence against the proved-sound reference evaluator (generated programs) — a scope function may receive only input series as series arguments in that stream.",
 "C10": "Full theorem on the machine model for every history; the mutation clause (caller data, returned values) is decided by value-level snapshots in the harness only.",
 "C11": "Full theorem on the machine model for every fault plan; tied to series.py by correspondence (fault plans on random series networks, operator faults in products).",
 "C12": "Causality theorem for every program + exactly-once on the machine; definition-time laziness of block_diagonalize is decided by the logging-Hamiltonian correspondence.",
 "C13": "PARTIAL: scale, permute, pad, power substitution proved (transport through uniqueness); merging two parameters by correspondence; key/symbol/Taylor bookkeeping: Taylor model proved, the rest correspondence.",
 "C14": "PARTIAL: eigenbasis rotation, carrier naturality, Taylor expansion, key normalisation and the blocks made from subspace_indices proved; the rest of the container / designation normalisation (glue around NumPy, SciPy, SymPy objects) by correspondence (13 formats + presentation variants).",
 "C15": "PARTIAL: shift, conjugation, rotation in degenerate levels, relabelling/regrouping of blocks, scaling of H proved; permutation of states across blocks and direct sums by correspondence.",
 "C16": "PARTIAL: diagonal, direct (any admissible pivot set), second-quantised solvers and KPM loop control proved; sparse LU, QR pivot choice, Chebyshev convergence are runtime (residual-tested).",
 "C17": "Full theorems on the (R, L) model; SciPy's LinearOperator composition classes are exercised (composites, adjoints, right multiplication), not modelled.",
 "C18": "Full theorems (loop = Cauchy sum, tuple order, half-sum, value = power-series product); request logs are compared with the model but decide only as a broken correspondence.",
 "C19": "PARTIAL: exactly-once, values, self-reference on the machine proved; the item resolution (NumPy's rule for integers, lists, forward slices + the trial array) is modelled and proved to give NumPy's selection on any large enough dense array, in bounds, each selected element once; views (finite-dimension-only items) are modelled as the code builds them and proved to show NumPy's selection followed by the orders; the model's NumPy rule itself is tested against NumPy on every run, not proved; masking of zero entries by the harness.",
 "C20": "PARTIAL: set-up decision logic modelled and characterised exactly; shared energies proved for both algorithms; SymPy's Hermiticity test, the numerical orthonormality test and float finiteness by correspondence.",
}
checks = []
for pid, spec in sorted(chk.PROPS.items()):
    spec = chk.with_props(pid, spec)
    own = [t.split('.')[-1] for t in spec['theorems'] if t.startswith('Pyma.Props.')]
    checks.append({
        "property_id": pid,
        "quick_cmd": f"./check {pid} --tier quick",
        "thorough_cmd": f"./check {pid} --tier thorough",
        "evidence_file": f"evidence/{pid}.json",
        "replay_cmd_template": f"./check {pid} --replay {{path}}",
        "engine": "lean+correspondence",
        "level_claimed": {"category": spec["level"],
                          "text": "theorems about the Lean model for all inputs (lean/PymaVerif/Props/" + pid + ".lean: " + ", ".join(own) +
                                  "), re-checked on every run — for the parts translated from the source against data regenerated from the current tree — plus a "
                                  "correspondence between the model's executable definitions and the implementation on generated inputs (streams: " +
                                  ", ".join(st[0] for st in (spec["corr"] if isinstance(spec["corr"], list) else [spec["corr"]])) + ")",
                          "design_ref": f"DESIGN.md §4 {pid}"},
        "level_note": BASE + NOTES[pid],
        "technique": "machine-checked proof in Lean 4 + differential correspondence",
    })
manifest = {
    "version": 1,
    "setup_cmd": "cd lean && lake build PymaVerif driver",
    "hooks": {"guard": chk.GUARD, "enable": f"{chk.GUARD}=1 in the environment of the implementation-side harness",
              "baseline_off_cmd": "cd /repo && /venv/bin/python -m pytest -ra -q -p no:cacheprovider --timeout=900 --continue-on-collection-errors",
              "source_commits": [], "add_only": True},
    "engines": [{"name": "lean+correspondence", "path": "check/check", "serves_properties": sorted(chk.PROPS),
                 "kind_free_text": "Lean 4 proofs (lake), generated model data, JSON-lines driver executable, Python harnesses"}],
    "checks": checks,
    "not_applicable": [],
    "notes": "generated by tools/gen_manifest.py from the runner's property table; design, status, defects found and seeded changes: DESIGN.md section 9",
}
(ROOT / "MANIFEST.json").write_text(json.dumps(manifest, indent=1, ensure_ascii=False))
print(len(checks), "checks")
