#!/usr/bin/env python3
"""Write MANIFEST.json from the runner's property table (one source of truth)."""
import json, pathlib, importlib.machinery, importlib.util
ROOT = pathlib.Path(__file__).resolve().parent.parent
ld = importlib.machinery.SourceFileLoader("chk", str(ROOT / "check"))
sp = importlib.util.spec_from_loader("chk", ld); chk = importlib.util.module_from_spec(sp); ld.exec_module(chk)

NOTES = {
 "default": "Lean 4 kernel; axioms propext, Classical.choice, Quot.sound only (audited by #print axioms on every run); the translator of "
            "algorithms.py and the dump of the compiler output (their result is pinned by kernel-checked `decide` facts); the correspondence "
            "harness and its exact-arithmetic oracle; SymPy/NumPy on the implementation side",
}
checks = []
for pid, spec in sorted(chk.PROPS.items()):
    checks.append({
        "property_id": pid,
        "quick_cmd": f"./check {pid} --tier quick",
        "thorough_cmd": f"./check {pid} --tier thorough",
        "evidence_file": f"evidence/{pid}.json",
        "replay_cmd_template": f"./check {pid} --replay {{path}}",
        "engine": "lean+correspondence",
        "level_claimed": {"category": spec["level"],
                          "text": "theorems about the Lean model for all inputs (" + ", ".join(t.split(".")[-1] for t in spec["theorems"]) +
                                  "), re-checked on every run against data regenerated from the current source, plus a correspondence "
                                  "between the model's executable definitions and the implementation on generated inputs",
                          "design_ref": f"DESIGN.md §4 {pid}"},
        "level_note": NOTES["default"],
        "technique": "machine-checked proof in Lean 4 + differential correspondence",
    })
manifest = {
    "version": 1,
    "setup_cmd": "cd lean && lake build PymaVerif driver",
    "hooks": {"guard": chk.GUARD, "enable": f"{chk.GUARD}=1 in the environment of the implementation-side harness",
              "baseline_off_cmd": "cd /repo && /venv/bin/python -m pytest -ra -q -p no:cacheprovider --timeout=900 --continue-on-collection-errors",
              "source_commits": [], "add_only": True},
    "engines": [{"name": "lean+correspondence", "path": "check/check", "serves_properties": sorted(chk.PROPS),
                 "kind_free_text": "Lean 4 proofs (lake), generated model data, JSON-lines driver executable, Python harnesses"}],
    "checks": checks,
    "not_applicable": [],
    "notes": "prototype manifest generated from the runner's property table",
}
(ROOT / "MANIFEST.json").write_text(json.dumps(manifest, indent=1, ensure_ascii=False))
print(len(checks), "checks")
