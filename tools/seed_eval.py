#!/usr/bin/env python3
"""Confirm a seeded change and run checks against it.
usage: seed_eval.py <seed-id> <patch> <demo> <metajson> <property> [more properties to run ...]
 1. scratch worktree of /repo: apply patch, run the pinned test command (xdist), compare with BASELINE stable_pass;
    run the demo with the change (must fail) and against /repo (must pass); remove the worktree
 2. apply the patch to /repo, run ./check <prop> --tier quick for each property, undo the patch
 3. write /verif/seeded/<seed-id>/{patch.diff, demo.py, meta.json}
"""
import json, os, pathlib, shutil, subprocess, sys, time, xml.etree.ElementTree as ET
args = sys.argv[1:]
INPLACE = "--repo" in args
if INPLACE: args.remove("--repo")
SKIPC = "--skip-confirm" in args
if SKIPC: args.remove("--skip-confirm")
sid, patch, demo, meta, *props = args
ROOT = pathlib.Path("/verif"); out = ROOT / "seeded" / sid; out.mkdir(parents=True, exist_ok=True)
wt = f"/tmp/seedwt-{sid}"
def sh(cmd, **kw): return subprocess.run(cmd, shell=isinstance(cmd, str), text=True, capture_output=True, **kw)
subprocess.run(["git", "-C", "/repo", "worktree", "remove", "--force", wt], capture_output=True)
assert sh(["git", "-C", "/repo", "worktree", "add", "-q", "--detach", wt, "HEAD"]).returncode == 0
shutil.copy("/repo/pymablock/_version.py", wt + "/pymablock/_version.py")
rec = {"seed": sid}
prev = {}
if SKIPC and (out / "meta.json").exists():
    prev = json.load(open(out / "meta.json")).get("what_was_run", {})
try:
    r = sh(["git", "-C", wt, "apply", os.path.abspath(patch)]); assert r.returncode == 0, r.stderr
    env = dict(os.environ, PYTHONPATH=wt)
    if SKIPC and "confirmed" in prev:
        for k in ("tests_tail", "baseline_tests_lost", "demo_with_change_exit", "demo_without_change_exit", "demo_with_change_tail", "confirmed"): rec[k] = prev.get(k)
        raise StopIteration
    junit = f"/tmp/seed-{sid}.xml"
    t = sh(f"cd {wt} && /venv/bin/python -m pytest -q -p no:cacheprovider --no-cov -n 8 --timeout=900 --continue-on-collection-errors --junitxml={junit}", env=env)
    base = set(json.load(open("/root/.vp/BASELINE.json"))["stable_pass"]); res = {}
    for tc in ET.parse(junit).iter("testcase"):
        res[f"{tc.get('classname')}::{tc.get('name')}"] = not any(c.tag in ("failure", "error", "skipped") for c in tc)
    lost = sorted(n for n in base if not res.get(n))
    if lost:
        # the suite draws random matrices: a baseline test lost once is re-run alone (twice) before it counts as lost
        still = []
        for name in lost:
            mod, test = name.split("::", 1); node = mod.replace(".", "/") + ".py::" + test
            again = [sh(f"cd {wt} && /venv/bin/python -m pytest -q -p no:cacheprovider --no-cov --timeout=900 '{node}'", env=env).returncode for _ in range(2)]
            if any(again): still.append(name)
        rec["baseline_tests_lost_once_but_passing_alone"] = sorted(set(lost) - set(still)); lost = still
    rec["tests_tail"] = t.stdout.strip().splitlines()[-1] if t.stdout.strip() else t.stderr[-200:]
    rec["baseline_tests_lost"] = lost
    d1 = sh(["/venv/bin/python", os.path.abspath(demo)], env=env, cwd="/tmp")
    d0 = sh(["/venv/bin/python", os.path.abspath(demo)], env=dict(os.environ, PYTHONPATH="/repo"), cwd="/tmp")
    rec["demo_with_change_exit"] = d1.returncode; rec["demo_without_change_exit"] = d0.returncode
    rec["demo_with_change_tail"] = (d1.stdout + d1.stderr).strip()[-400:]
except StopIteration:
    pass
except BaseException:
    subprocess.run(["git", "-C", "/repo", "worktree", "remove", "--force", wt], capture_output=True); raise
if "confirmed" not in rec: rec["confirmed"] = (not rec.get("baseline_tests_lost")) and rec.get("demo_with_change_exit") != 0 and rec.get("demo_without_change_exit") == 0
checks = {}
cenv = dict(os.environ, VERIF_EVIDENCE_DIR=f"/tmp/seed-evid/{sid}", VERIF_REPLAY_DIR=f"/tmp/seed-evid/{sid}/replays")
os.makedirs(f"/tmp/seed-evid/{sid}", exist_ok=True)
if INPLACE:
    subprocess.run(["git", "-C", "/repo", "worktree", "remove", "--force", wt], capture_output=True)
    assert sh(["git", "-C", "/repo", "status", "--porcelain", "--untracked-files=no"]).stdout.strip() == "", "/repo not clean"
    r = sh(["git", "-C", "/repo", "apply", os.path.abspath(patch)]); assert r.returncode == 0, r.stderr
else:
    cenv["VERIF_REPO"] = wt
rec["checks_run_against"] = "/repo with the patch applied (git apply), undone afterwards" if INPLACE else "scratch worktree with the patch applied (VERIF_REPO)"
try:
    for p in props:
        t0 = time.time()
        c = sh(["./check", p, "--tier", "quick"], cwd=ROOT, env=cenv)
        lines = [l for l in c.stdout.splitlines() if l.startswith(("VIOLATION", "KNOWN-FINDING", "check "))]
        checks[p] = {"exit": c.returncode, "wall_s": round(time.time() - t0), "lines": [l[:300] for l in lines[:4]], "stderr": c.stderr.strip()[-300:]}
        print(p, "exit", c.returncode, lines[:2], flush=True)
finally:
    if INPLACE: sh(["git", "-C", "/repo", "checkout", "--", "."])
    else: subprocess.run(["git", "-C", "/repo", "worktree", "remove", "--force", wt], capture_output=True)
allc = dict(prev.get("checks_with_change", {})); allc.update(checks); checks = allc
rec["checks_with_change"] = checks
rec["detected_by"] = sorted(p for p, c in checks.items() if c["exit"] == 1 and any(l.startswith("VIOLATION") for l in c["lines"]))
shutil.copy(patch, out / "patch.diff"); shutil.copy(demo, out / "demo.py")
m = json.load(open(meta)) if os.path.exists(meta) else {}
m.update({"what_was_run": rec})
(out / "meta.json").write_text(json.dumps(m, indent=1, ensure_ascii=False))
print(json.dumps({k: rec[k] for k in ("confirmed", "tests_tail", "baseline_tests_lost", "demo_with_change_exit", "demo_without_change_exit", "detected_by")}, indent=1))
