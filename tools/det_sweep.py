#!/usr/bin/env python3
"""Is the detection of the kept seeded changes independent of VERIF_SEED?
usage: det_sweep.py <lane> <nlanes> <seed> [<seed> ...]
For every seeded/<id>: scratch worktree of /repo with the patch applied (VERIF_REPO), the quick check of each property that reported the change
under the recorded run, once per given VERIF_SEED.  Prints one line per (change, seed); nothing is written under /verif."""
import json, os, pathlib, subprocess, sys
ROOT = pathlib.Path(__file__).resolve().parent.parent
lane, nl, *seeds = sys.argv[1:]; lane, nl = int(lane), int(nl)
ids = sorted(d.name for d in (ROOT / "seeded").iterdir() if d.is_dir() and not d.name.startswith("_") and os.environ.get("DET_FILTER", "") in d.name)
if os.environ.get("DET_LIST"): ids = [i for i in ids if i in set(open(os.environ["DET_LIST"]).read().split())]
order = list(enumerate(ids))
if os.environ.get("DET_REVERSE"): order.reverse()      # (a second set of lanes can work from the other end)
for k, sid in order:
    if k % nl != lane: continue
    meta = json.load(open(ROOT / "seeded" / sid / "meta.json")); props = meta["what_was_run"]["detected_by"] or [sid.split("-")[0]]
    wt = f"/tmp/detwt-{sid}"
    subprocess.run(["git", "-C", "/repo", "worktree", "remove", "--force", wt], capture_output=True)
    subprocess.run(["git", "-C", "/repo", "worktree", "add", "-q", "--detach", wt, "HEAD"], check=True)
    subprocess.run(["cp", "/repo/pymablock/_version.py", wt + "/pymablock/_version.py"])
    try:
        r = subprocess.run(["git", "-C", wt, "apply", str(ROOT / "seeded" / sid / "patch.diff")], capture_output=True, text=True)
        if r.returncode: print(sid, "PATCH-DOES-NOT-APPLY", flush=True); continue
        for sd in seeds:
            hit = []
            for p in props:
                env = dict(os.environ, VERIF_REPO=wt, VERIF_SEED=sd, VERIF_EVIDENCE_DIR=f"/tmp/det-evid/{sid}", VERIF_REPLAY_DIR=f"/tmp/det-evid/{sid}/replays")
                c = subprocess.run(["./check", p, "--tier", "quick"], cwd=ROOT, env=env, capture_output=True, text=True)
                if c.returncode == 1 and "VIOLATION property=" not in c.stdout:
                    hit.append(f"{p}:exit1-without-a-violation-line")      # (the runner itself failed: not a detection)
                elif c.returncode == 1:
                    hit.append(p)
                    if os.environ.get("DET_FIRST"): break      # one reporting check is enough
                elif c.returncode != 0: hit.append(f"{p}:exit{c.returncode}")
            print(sid, "seed", sd, "reported by", hit if hit else "NONE", flush=True)
    finally:
        subprocess.run(["git", "-C", "/repo", "worktree", "remove", "--force", wt], capture_output=True)
