#!/usr/bin/env python3
"""Markdown table of the seeded changes (from seeded/*/meta.json): what each breaks, what it needs, which checks report it."""
import json, pathlib
root = pathlib.Path(__file__).resolve().parent.parent / "seeded"
print("| seed | breaks | the change | needs, to manifest | reported by |")
print("|---|---|---|---|---|")
for d in sorted(p for p in root.iterdir() if p.is_dir() and not p.name.startswith("_")):
    m = json.load(open(d / "meta.json")); w = m.get("what_was_run", {})
    summ = (m.get("summary") or "").replace("|", "/").replace("\n", " ")
    needs = (m.get("needs_to_manifest") or "").replace("|", "/").replace("\n", " ")
    def cut(s, n): return s if len(s) <= n else s[: n - 1].rsplit(" ", 1)[0] + " …"
    print(f"| {d.name} | {m.get('property', d.name[:3])} | {cut(summ, 230)} | {cut(needs, 200)} | {', '.join(w.get('detected_by', [])) or '—'} |")
