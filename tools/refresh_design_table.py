#!/usr/bin/env python3
"""Replace the seeded-change table of DESIGN.md (between the seedtable markers) by the current tools/seed_table.py output."""
import subprocess, pathlib, re
root = pathlib.Path(__file__).resolve().parent.parent
tab = subprocess.run(["python3", str(root / "tools" / "seed_table.py")], capture_output=True, text=True).stdout
p = root / "DESIGN.md"; s = p.read_text()
block = "<!-- seedtable -->\n" + tab + "<!-- /seedtable -->"
if "<!-- seedtable -->" in s: s = re.sub(r"<!-- seedtable -->.*?<!-- /seedtable -->", lambda m: block, s, flags=re.S)
else: s = s.replace("SEEDTABLE", block)
p.write_text(s)
