#!/usr/bin/env python3
"""Dump the `series_eval` bodies that pymablock's compiler (algorithm_parsing._parse_algorithm)
produces for the shipped algorithms as Lean data (`Dsl.CStmt` lists).

Usage: dump_compiled.py <out.lean>          (run with the interpreter that has /repo's pymablock)
`del_` statements are dropped (deletion is value-irrelevant: theorem M1); everything else must fit
the closed grammar, otherwise DumpError is raised.
"""
import ast, sys, pathlib, warnings
warnings.simplefilter("ignore")

class DumpError(Exception):
    pass

def lstr(s): return '"' + s.replace("\\", "\\\\").replace('"', '\\"') + '"'
def lint(k): return f"({k})" if k < 0 else str(k)

SWAPPED = "(index[1], index[0], *index[2:])"

def const_int(node):
    if isinstance(node, ast.Constant) and isinstance(node.value, int) and not isinstance(node.value, bool):
        return node.value
    if isinstance(node, ast.UnaryOp) and isinstance(node.op, ast.USub):
        return -const_int(node.operand)
    raise DumpError(f"integer expected: {ast.unparse(node)}")

def flag(node):
    if isinstance(node, ast.Name):
        return f"(.name {lstr(node.id)})"
    if isinstance(node, ast.Subscript) and isinstance(node.value, ast.Name) and ast.unparse(node.slice) == "index[0]":
        return f"(.indexed {lstr(node.value.id)})"
    raise DumpError(f"unsupported flag {ast.unparse(node)}")

def args(nodes):
    out = ".anil"
    for n in reversed(nodes):
        out = f"(.acons {cexpr(n)} {out})"
    return out

def is_which(node):
    return (isinstance(node, ast.Subscript) and isinstance(node.value, ast.Name) and node.value.id == "which"
            and isinstance(node.slice, ast.Constant) and isinstance(node.slice.value, str))

def cexpr(node):
    if isinstance(node, ast.Name):
        if node.id == "result": return ".result"
        if node.id == "zero": return ".zero"
        raise DumpError(f"unexpected name {node.id}")
    if isinstance(node, ast.Subscript) and is_which(node.value):
        idx = ast.unparse(node.slice)
        if idx == "index": sw = "false"
        elif idx in (SWAPPED, SWAPPED[1:-1]): sw = "true"
        else: raise DumpError(f"unexpected element index {idx}")
        return f"(.elem {lstr(node.value.slice.value)} {sw})"
    if is_which(node):
        return f"(.serArg {lstr(node.slice.value)})"
    if isinstance(node, ast.UnaryOp) and isinstance(node.op, ast.USub):
        return f"(.neg {cexpr(node.operand)})"
    if isinstance(node, ast.IfExp):
        return f"(.ite {flag(node.test)} {cexpr(node.body)} {cexpr(node.orelse)})"
    if isinstance(node, ast.Call) and isinstance(node.func, ast.Name) and not node.keywords:
        f = node.func.id
        if f == "Dagger" and len(node.args) == 1:
            return f"(.dagger {cexpr(node.args[0])})"
        if f == "_zero_sum":
            return f"(.zsum {args(node.args)})"
        if f == "_safe_divide" and len(node.args) == 2:
            return f"(.sdiv {cexpr(node.args[0])} {lint(const_int(node.args[1]))})"
        # scope function: the index must be the last argument
        if not node.args or ast.unparse(node.args[-1]) != "index":
            raise DumpError(f"scope function without trailing index: {ast.unparse(node)}")
        return f"(.call {lstr(f)} {args(node.args[:-1])})"
    raise DumpError(f"unsupported compiled expression: {ast.unparse(node)}")

TESTS = {"index[0] > index[1]": "lower", "index[0] == index[1]": "diag", "index[0] != index[1]": "off",
         "offdiag is not None and index[0] == index[1]": "offwrap"}

def is_del(st):
    return isinstance(st, ast.Expr) and isinstance(st.value, ast.Call) and isinstance(st.value.func, ast.Name) \
        and st.value.func.id == "del_"

def assign_value(st):
    if not (isinstance(st, ast.Assign) and len(st.targets) == 1 and isinstance(st.targets[0], ast.Name)
            and st.targets[0].id == "result"):
        raise DumpError(f"assignment to result expected: {ast.unparse(st)}")
    return st.value

def body(fn: ast.FunctionDef):
    if ast.unparse(fn.args) != "*index":
        raise DumpError("unexpected signature")
    sts = list(fn.body)
    if ast.unparse(sts[0]) != "which = linear_operator_series if use_linear_operator[index[:2]] else series" \
            or ast.unparse(sts[1]) != "result = zero" or ast.unparse(sts[-1]) != "return result":
        raise DumpError("unexpected prologue/epilogue")
    out = []
    for st in sts[2:-1]:
        if is_del(st):
            continue
        if isinstance(st, ast.If):
            kind = TESTS.get(ast.unparse(st.test))
            if kind is None or st.orelse:
                raise DumpError(f"unsupported test {ast.unparse(st.test)}")
            inner = [s for s in st.body if not is_del(s)]
            if kind == "lower":
                if len(inner) != 2 or ast.unparse(inner[1]) != "return result":
                    raise DumpError("lower branch must assign and return")
            elif len(inner) != 1:
                raise DumpError("branch must be a single assignment")
            out.append(f".{kind} {cexpr(assign_value(inner[0]))}")
        else:
            out.append(f".assign {cexpr(assign_value(st))}")
    return out

def main(out):
    from pymablock import algorithm_parsing as ap, algorithms
    parts = ["-- GENERATED by tools/dump_compiled.py from pymablock's compiler output — do not edit",
             "import PymaVerif.Model.CBody", "", "namespace Pyma.Generated", "open Pyma.Dsl", ""]
    for name in ("main", "nonhermitian"):
        series, products, outputs = ap._parse_algorithm(getattr(algorithms, name))
        items = []
        for s in series:
            fn = s.definition.body[0] if isinstance(s.definition, ast.Module) else s.definition
            stmts = ",\n        ".join(body(fn))
            items.append(f"({lstr(s.name)}, [\n        {stmts}])")
        parts.append(f"def compiled_{name} : List (String × List CStmt) := [\n    " + ",\n    ".join(items) + "]\n")
    parts.append("end Pyma.Generated\n")
    text = "\n".join(parts)
    p = pathlib.Path(out)
    if not p.exists() or p.read_text() != text:
        p.write_text(text)

if __name__ == "__main__":
    main(sys.argv[1])
