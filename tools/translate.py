#!/usr/bin/env python3
"""Translate pymablock/algorithms.py (series mini-language) into Lean data (Dsl.Prog).

Usage: translate.py <repo> <out.lean>
Only the text of algorithms.py is read; nothing from pymablock is executed.
Any construct outside the supported grammar raises TranslateError.
"""
import ast, sys, pathlib

class TranslateError(Exception):
    pass

def lstr(s: str) -> str:
    return '"' + s.replace("\\", "\\\\").replace('"', '\\"') + '"'

def lint(k: int) -> str:
    return f"({k})" if k < 0 else str(k)

def const_int(node) -> int:
    if isinstance(node, ast.Constant) and isinstance(node.value, int) and not isinstance(node.value, bool):
        return node.value
    if isinstance(node, ast.UnaryOp) and isinstance(node.op, ast.USub):
        return -const_int(node.operand)
    raise TranslateError(f"integer literal expected: {ast.dump(node)}")

def flag(node) -> str:
    if isinstance(node, ast.Name):
        return f"(.name {lstr(node.id)})"
    if (isinstance(node, ast.Subscript) and isinstance(node.value, ast.Name)
            and ast.unparse(node.slice) == "index[0]"):
        return f"(.indexed {lstr(node.value.id)})"
    raise TranslateError(f"unsupported flag: {ast.unparse(node)}")

def expr(node) -> str:
    if isinstance(node, ast.Constant) and isinstance(node.value, str):
        return f"(.ser {lstr(node.value)})"
    if isinstance(node, ast.Attribute) and node.attr == "adj" and isinstance(node.value, ast.Constant) \
            and isinstance(node.value.value, str):
        return f"(.adj {lstr(node.value.value)})"
    if isinstance(node, ast.Name) and node.id == "zero":
        return ".zero"
    if isinstance(node, ast.UnaryOp) and isinstance(node.op, ast.USub):
        return f"(.neg {expr(node.operand)})"
    if isinstance(node, ast.BinOp):
        if isinstance(node.op, ast.Add):
            return f"(.add {expr(node.left)} {expr(node.right)})"
        if isinstance(node.op, ast.Sub):
            return f"(.sub {expr(node.left)} {expr(node.right)})"
        if isinstance(node.op, ast.Div):
            return f"(.divInt {expr(node.left)} {lint(const_int(node.right))})"
    if isinstance(node, ast.IfExp):
        return f"(.ite {flag(node.test)} {expr(node.body)} {expr(node.orelse)})"
    if isinstance(node, ast.Call) and isinstance(node.func, ast.Name) and len(node.args) == 1 and not node.keywords:
        a = node.args[0]
        if isinstance(a, ast.Constant) and isinstance(a.value, str):
            return f"(.callSer {lstr(node.func.id)} {lstr(a.value)})"
        return f"(.callExpr {lstr(node.func.id)} {expr(a)})"
    raise TranslateError(f"unsupported expression: {ast.unparse(node)}")

CONDS = {"diagonal": ".diagonal", "offdiagonal": ".offdiagonal", "lower": ".lower"}

def start(value) -> str:
    if value == 0 and not isinstance(value, bool):
        return ".zero"
    if value == 1 and not isinstance(value, bool):
        return ".one"
    if isinstance(value, str) and value.endswith("_0"):
        return f"(.input {lstr(value[:-2])})"
    raise TranslateError(f"unsupported start value: {value!r}")

def series_def(name: str, node: ast.With) -> str:
    st, body = ".none", []
    for b in node.body:
        if isinstance(b, ast.Assign):
            if len(b.targets) != 1 or not isinstance(b.targets[0], ast.Name) or b.targets[0].id != "start" \
                    or not isinstance(b.value, ast.Constant):
                raise TranslateError(f"unsupported assignment in {name}: {ast.unparse(b)}")
            st = start(b.value.value)
        elif isinstance(b, ast.Pass):
            pass
        elif isinstance(b, ast.Expr) and isinstance(b.value, ast.Name) and b.value.id in ("hermitian", "antihermitian"):
            body.append(f".marker {'true' if b.value.id == 'antihermitian' else 'false'}")
        elif isinstance(b, ast.If):
            if not isinstance(b.test, ast.Name) or b.test.id not in CONDS or b.orelse or len(b.body) != 1 \
                    or not isinstance(b.body[0], ast.Expr):
                raise TranslateError(f"unsupported condition in {name}: {ast.unparse(b)}")
            body.append(f".clause {CONDS[b.test.id]} {expr(b.body[0].value)}")
        elif isinstance(b, ast.Expr):
            body.append(f".clause .default {expr(b.value)}")
        else:
            raise TranslateError(f"unsupported statement in {name}: {ast.unparse(b)}")
    inner = ",\n        ".join(body)
    return f"{{ name := {lstr(name)}, start := {st}, body := [\n        {inner}] }}"

def product_def(name: str, node: ast.With) -> str:
    herm = False
    for b in node.body:
        if isinstance(b, ast.Pass):
            continue
        if isinstance(b, ast.Expr) and isinstance(b.value, ast.Name) and b.value.id == "hermitian":
            herm = True
            continue
        raise TranslateError(f"unsupported statement in product {name}: {ast.unparse(b)}")
    terms = ", ".join(lstr(t) for t in name.split(" @ "))
    return f"{{ terms := [{terms}], hermitian := {'true' if herm else 'false'} }}"

def program(fn: ast.FunctionDef) -> str:
    series, products, outputs = [], [], None
    for node in fn.body:
        if isinstance(node, ast.With):
            if len(node.items) != 1 or not isinstance(node.items[0].context_expr, ast.Constant):
                raise TranslateError(f"unsupported with-item: {ast.unparse(node.items[0])}")
            name = node.items[0].context_expr.value
            (products if "@" in name else series).append(
                product_def(name, node) if "@" in name else series_def(name, node))
        elif isinstance(node, ast.Return):
            v = node.value
            elts = v.elts if isinstance(v, ast.Tuple) else [v]
            outputs = [e.value for e in elts]
        elif isinstance(node, ast.Expr) and isinstance(node.value, ast.Constant):
            continue  # docstring
        else:
            raise TranslateError(f"unsupported top-level statement: {ast.unparse(node)}")
    if outputs is None:
        raise TranslateError("missing return")
    s = ",\n      ".join(series)
    p = ",\n      ".join(products)
    o = ", ".join(lstr(x) for x in outputs)
    return f"{{ series := [\n      {s}],\n    products := [\n      {p}],\n    outputs := [{o}] }}"


# ---------------------------------------------------------------- JSON form of the same grammar (for the driver's `prog` command)
def flag_j(node):
    if isinstance(node, ast.Name): return {"kind": "name", "s": node.id}
    if (isinstance(node, ast.Subscript) and isinstance(node.value, ast.Name) and ast.unparse(node.slice) == "index[0]"):
        return {"kind": "indexed", "s": node.value.id}
    raise TranslateError(f"unsupported flag: {ast.unparse(node)}")

def expr_j(node):
    if isinstance(node, ast.Constant) and isinstance(node.value, str): return {"op": "ser", "x": node.value}
    if isinstance(node, ast.Attribute) and node.attr == "adj" and isinstance(node.value, ast.Constant) and isinstance(node.value.value, str):
        return {"op": "adj", "x": node.value.value}
    if isinstance(node, ast.Name) and node.id == "zero": return {"op": "zero"}
    if isinstance(node, ast.UnaryOp) and isinstance(node.op, ast.USub): return {"op": "neg", "e": expr_j(node.operand)}
    if isinstance(node, ast.BinOp):
        if isinstance(node.op, ast.Add): return {"op": "add", "a": expr_j(node.left), "b": expr_j(node.right)}
        if isinstance(node.op, ast.Sub): return {"op": "sub", "a": expr_j(node.left), "b": expr_j(node.right)}
        if isinstance(node.op, ast.Div): return {"op": "divInt", "e": expr_j(node.left), "k": const_int(node.right)}
    if isinstance(node, ast.IfExp): return {"op": "ite", "flag": flag_j(node.test), "t": expr_j(node.body), "e": expr_j(node.orelse)}
    if isinstance(node, ast.Call) and isinstance(node.func, ast.Name) and len(node.args) == 1 and not node.keywords:
        a = node.args[0]
        if isinstance(a, ast.Constant) and isinstance(a.value, str): return {"op": "callSer", "f": node.func.id, "x": a.value}
        return {"op": "callExpr", "f": node.func.id, "e": expr_j(a)}
    raise TranslateError(f"unsupported expression: {ast.unparse(node)}")

def program_j(fn: ast.FunctionDef):
    series, products, outputs = [], [], None
    for node in fn.body:
        if isinstance(node, ast.With):
            if len(node.items) != 1 or not isinstance(node.items[0].context_expr, ast.Constant):
                raise TranslateError(f"unsupported with-item: {ast.unparse(node.items[0])}")
            name = node.items[0].context_expr.value
            if "@" in name:
                herm = False
                for b in node.body:
                    if isinstance(b, ast.Pass): continue
                    if isinstance(b, ast.Expr) and isinstance(b.value, ast.Name) and b.value.id == "hermitian": herm = True; continue
                    raise TranslateError(f"unsupported statement in product {name}: {ast.unparse(b)}")
                products.append({"terms": name.split(" @ "), "hermitian": herm}); continue
            st, body = {"kind": "none"}, []
            for b in node.body:
                if isinstance(b, ast.Assign):
                    if len(b.targets) != 1 or not isinstance(b.targets[0], ast.Name) or b.targets[0].id != "start" or not isinstance(b.value, ast.Constant):
                        raise TranslateError(f"unsupported assignment in {name}: {ast.unparse(b)}")
                    v = b.value.value
                    if v == 0 and not isinstance(v, bool): st = {"kind": "zero"}
                    elif v == 1 and not isinstance(v, bool): st = {"kind": "one"}
                    elif isinstance(v, str) and v.endswith("_0"): st = {"kind": "input", "x": v[:-2]}
                    else: raise TranslateError(f"unsupported start value: {v!r}")
                elif isinstance(b, ast.Pass): pass
                elif isinstance(b, ast.Expr) and isinstance(b.value, ast.Name) and b.value.id in ("hermitian", "antihermitian"):
                    body.append({"kind": "marker", "anti": b.value.id == "antihermitian"})
                elif isinstance(b, ast.If):
                    if not isinstance(b.test, ast.Name) or b.test.id not in CONDS or b.orelse or len(b.body) != 1 or not isinstance(b.body[0], ast.Expr):
                        raise TranslateError(f"unsupported condition in {name}: {ast.unparse(b)}")
                    body.append({"kind": "clause", "cond": b.test.id, "expr": expr_j(b.body[0].value)})
                elif isinstance(b, ast.Expr): body.append({"kind": "clause", "cond": "default", "expr": expr_j(b.value)})
                else: raise TranslateError(f"unsupported statement in {name}: {ast.unparse(b)}")
            series.append({"name": name, "start": st, "body": body})
        elif isinstance(node, ast.Return):
            v = node.value; elts = v.elts if isinstance(v, ast.Tuple) else [v]; outputs = [e.value for e in elts]
        elif isinstance(node, ast.Expr) and isinstance(node.value, ast.Constant): continue
        else: raise TranslateError(f"unsupported top-level statement: {ast.unparse(node)}")
    if outputs is None: raise TranslateError("missing return")
    return {"series": series, "products": products, "outputs": outputs}

def program_json_from_source(src: str, name: str):
    fns = {n.name: n for n in ast.parse(src).body if isinstance(n, ast.FunctionDef)}
    return program_j(fns[name])

def main(repo: str, out: str) -> None:
    src = pathlib.Path(repo, "pymablock", "algorithms.py").read_text()
    tree = ast.parse(src)
    fns = {n.name: n for n in tree.body if isinstance(n, ast.FunctionDef)}
    parts = ["-- GENERATED by tools/translate.py from pymablock/algorithms.py — do not edit",
             "import PymaVerif.Model.Dsl", "", "namespace Pyma.Generated", "open Pyma.Dsl", ""]
    for name in ("main", "nonhermitian"):
        if name not in fns:
            raise TranslateError(f"algorithm {name} not found")
        parts.append(f"def {name} : Prog :=\n  {program(fns[name])}\n")
    parts.append("end Pyma.Generated\n")
    text = "\n".join(parts)
    p = pathlib.Path(out)
    if not p.exists() or p.read_text() != text:
        p.write_text(text)

if __name__ == "__main__":
    main(sys.argv[1], sys.argv[2])
