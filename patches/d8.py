import ast, sys, warnings
warnings.simplefilter("ignore")
from pymablock import algorithm_parsing as ap, algorithms
def test_alg():
    with "A":
        start = "H"
        if diagonal:
            f("A @ A") + g("H")
        if offdiagonal:
            -f("A @ A") / 2
        h(f("H"))
    "A @ A"
    return "A"
for alg in (algorithms.main, algorithms.nonhermitian, test_alg):
    series, products, outputs = ap._parse_algorithm(alg)
    for s in series:
        print("##", alg.__name__, s.name); print(ast.unparse(s.definition))
