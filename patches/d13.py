import sympy, numpy as np
from pymablock import block_diagonalize
H0 = sympy.diag(1,2,0,0)
H1 = sympy.Matrix(4,4,lambda i,j: sympy.Rational(1+i+j, 3) if i!=j else 0)
Ht,U,Ui = block_diagonalize([H0,H1], subspace_indices=[0,0,1,1])
Htn,_,_ = block_diagonalize([np.array(H0,dtype=float),np.array(H1,dtype=float)], subspace_indices=[0,0,1,1])
print(np.abs(np.array(Ht[0,0,2],dtype=float)-Htn[0,0,2]).max(), np.abs(np.array(Ht[1,1,3],dtype=float)-Htn[1,1,3]).max())
