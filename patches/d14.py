import sympy
from sympy.physics.quantum import Dagger
from sympy.physics.quantum.fermion import FermionOp
from pymablock.number_ordered_form import NumberOrderedForm, NumberOperator
f = FermionOp('f')
Nf = NumberOperator(f)
x = NumberOrderedForm([f], {(1,): Nf})
print("x =", x, "| as_expr:", x.as_expr())
y = NumberOrderedForm.from_expr(Dagger(f))
print("x*fdag =", (x*y).as_expr())
print("from_expr(N f) =", NumberOrderedForm.from_expr(Nf*f).as_expr(), "| from_expr(N f fdag)=", NumberOrderedForm.from_expr(Nf*f*Dagger(f)).as_expr())
print("canon:", x._cancel_binary_operator_numbers().as_expr())
