import sympy, numpy as np, traceback
from pymablock import block_diagonalize
H0 = sympy.diag(0,0,1,2); 
H1 = sympy.Matrix(4,4,lambda i,j: sympy.Rational(1+i+j, 3) if i!=j else 0)
for fd in [(0,), (0,1), {0: np.zeros((2,2),dtype=bool)}, {0: np.zeros((2,2),dtype=bool), 1: np.array([[False,True],[True,False]])}]:
    try:
        Ht,U,Ui = block_diagonalize([H0,H1], subspace_indices=[0,0,1,1], fully_diagonalize=fd)
        s = Ht[0,0,2]
        Htn,_,_ = block_diagonalize([np.array(H0,dtype=float),np.array(H1,dtype=float)], subspace_indices=[0,0,1,1], fully_diagonalize=fd)
        print(type(fd).__name__, np.abs(np.array(s,dtype=float)-Htn[0,0,2]).max(), np.abs(np.array(Ht[1,1,3],dtype=float)-Htn[1,1,3]).max())
    except Exception as e:
        print(type(fd).__name__, "EXC", type(e).__name__, str(e)[:80])
