import numpy as np
from scipy import sparse
from pymablock.linalg import direct_greens_function
H = sparse.csr_array(np.array([[0,0],[2,-1.]])); E=0.
K = np.array([[1],[2.]])/1; L = np.array([[1],[0.]])
# biorthonormal: L^† K = 1
print("LK", L.T@K, "HK", (E*np.eye(2)-H.toarray())@K, "LH", L.T@(E*np.eye(2)-H.toarray()))
try:
    G = direct_greens_function(H, E, K, L)
    v = np.array([0., 3.])  # in range: L^† v = 0
    x = G(v.copy())
    print("x", x, "resid", (E*np.eye(2)-H.toarray())@x - v, "L^†x", L.T@x)
except Exception as e: print("EXC", e)
# random non-normal test
rng = np.random.default_rng(1)
bad=0
for t in range(200):
    n = rng.integers(3,8); k = rng.integers(1,3)
    V = rng.normal(size=(n,n)) + (1j*rng.normal(size=(n,n)) if t%2 else 0)
    ev = rng.normal(size=n); ev[:k] = 0.7
    A = V@np.diag(ev)@np.linalg.inv(V)
    Kk = V[:, :k]; Ll = np.linalg.inv(V).conj().T[:, :k]
    G = direct_greens_function(sparse.csr_array(A), 0.7, Kk, Ll)
    v = rng.normal(size=n) + 0j; v = v - Kk@(Ll.conj().T@v)
    x = G(v.copy())
    r = np.abs((0.7*np.eye(n)-A)@x - v).max(); g = np.abs(Ll.conj().T@x).max()
    if r>1e-8 or g>1e-8: bad+=1
print("bad", bad)
